#!/bin/sh
# usage: seed_reverify.sh <id>...   -- re-confirms kept seeded changes against /repo's CURRENT HEAD:
#   a scratch worktree of HEAD under /tmp/wt/rv-<id>, patch applied with plain `git apply`, then: builds; the
#   demonstration fails with the change and passes without; the repository's whole suite passes with the change.
# Updates /verif/seeded/<id>/confirm.json (adds "head"). The worktree is removed afterwards.
export GOFLAGS=-mod=mod GOPROXY=off GOSUMDB=off GOTOOLCHAIN=local
head=$(git -C /repo rev-parse --short HEAD)
mkdir -p /tmp/wt
for id in "$@"; do
  src=/verif/seeded/$id; wt=/tmp/wt/rv-$id
  git -C /repo worktree remove --force $wt 2>/dev/null
  git -C /repo worktree add -q --detach $wt HEAD || { echo "SEED-REVERIFY {\"id\":\"$id\",\"error\":\"worktree\"}"; continue; }
  applies=0; (cd $wt && git apply $src/patch.diff) || applies=1
  for f in $src/*_test.go; do [ -f "$f" ] && cp "$f" $wt/; done
  demo_cmd=$(grep -v '^#' $src/demo_cmd.txt 2>/dev/null | grep -m1 "go test\|go run")
  [ -z "$demo_cmd" ] && demo_cmd="go test -vet=off -count=1 -run Demo ."
  demo_cmd=$(echo "$demo_cmd" | sed "s#/tmp/wt/$id#$wt#g")
  run_demo() { unshare -n sh -c "ip link set lo up; cd $wt && $demo_cmd" > $1 2>&1; echo $?; }
  (cd $wt && go build ./... > /tmp/wt/rv-$id.build.log 2>&1); build=$?
  with=$(run_demo /tmp/wt/rv-$id.demo_with.log)
  (cd $wt && git apply -R $src/patch.diff)
  without=$(run_demo /tmp/wt/rv-$id.demo_without.log)
  (cd $wt && git apply $src/patch.diff)
  for f in $src/*_test.go; do [ -f "$f" ] && rm -f $wt/$(basename $f); done
  unshare -n sh -c "ip link set lo up; cd $wt && go test -json -vet=off -count=1 -timeout 25m ./..." > /tmp/wt/rv-$id.suite.json 2>&1
  python3 - $id $build $with $without $applies $head <<'PY'
import json,sys
id,build,withc,without,applies,head=sys.argv[1],int(sys.argv[2]),int(sys.argv[3]),int(sys.argv[4]),int(sys.argv[5]),sys.argv[6]
p=f=0; failed=[]
for l in open('/tmp/wt/rv-%s.suite.json'%id):
    try: e=json.loads(l)
    except: continue
    if e.get('Test') and '/' not in e['Test']:
        if e['Action']=='pass': p+=1
        elif e['Action']=='fail': f+=1; failed.append(e['Test'])
res={"id":id,"head":head,"patch_applies_to_head":applies==0,"builds":build==0,"demo_fails_with_change":withc!=0,"demo_passes_without_change":without==0,
     "suite_pass":p,"suite_fail":f,"suite_failed":failed,"patch_matches_worktree":True}
json.dump(res,open('/verif/seeded/%s/confirm.json'%id,'w'),indent=1)
print("SEED-REVERIFY",json.dumps(res))
PY
  git -C /repo worktree remove --force $wt
  rm -f /tmp/wt/rv-$id.suite.json
done
