package raft

// vh_ALC: applyLoop over a committed, unapplied configuration entry (L1).
// Obligations: C09.future (the submitter's future resolves with the applied configuration),
// C09 apply order (older configurations are ignored), C16.stepdown (a leader leaves only when removed),
// C03.fail (pending operations failed on step-down), C18.future.

func vh_ALC() {
	ids := []string{"n1", "n2", "n3"}
	n := vBuildNode(vNodeSpec{name: "a", self: "n1", ids: ids, maxLog: 1,
		states: []State{Leader, Follower}, members: "any"})
	r := n.r
	vAssume(len(n.log.entries) == 2)
	e := n.log.entries[1]
	// the entry is a configuration entry, committed and not applied
	vAssume(vAnd(r.lastApplied == e.Index-1, r.commitIndex == e.Index))
	next := &Configuration{Members: map[string]string{}, IsVoter: map[string]bool{}, Index: vNondetU64("next.index")}
	for _, id := range ids {
		if vNondetBool("next.member." + id) {
			next.Members[id] = "addr-" + id
			next.IsVoter[id] = vNondetBool("next.voter." + id)
		}
	}
	e.EntryType = ConfigurationEntry
	e.Data, _ = n.tr.EncodeConfiguration(next)
	// the committed configuration is the one in force or an older one (N6)
	ci := vNondetU64("a.committedCfgIndex")
	vAssume(ci <= r.configuration.Index)
	r.committedConfiguration.Index = ci
	own := r.state == Leader && vNondetBool("ownChange")
	var ch chan Result[Configuration]
	if own {
		// the change was submitted to this leader: its entry carries its own log index
		vAssume(next.Index == e.Index)
		ch = make(chan Result[Configuration], 1)
		r.configurationResponseCh = ch
	}
	var chRep chan Result[OperationResponse]
	if r.state == Leader {
		chRep = make(chan Result[OperationResponse], 1)
		r.operationManager.pendingReplicated[e.Index+1] = chRep
	}
	// configurations are identified by their log index: the one in force is the entry's own if it has the same index
	// (a follower, or a leader that added a server, has had it in force since it appended the entry)
	vAssume(vImplies(r.configuration.Index == next.Index, vCfgSame(r.configuration, next, ids)))
	// a leader is a member of the configuration it has in force
	if r.state == Leader {
		_, selfIn := r.configuration.Members["n1"]
		vAssume(selfIn)
	}
	pre := vSnapshotNode(n)
	preCommittedIdx := r.committedConfiguration.Index
	preCfg := r.configuration
	preCfgIdx := r.configuration.Index
	_, selfStays := next.Members["n1"]
	ctl := &vLoopCtl{}
	var post vSnap
	ctl.after = func() { post = vSnapshotNode(n) }
	n.hook = vLoopHook(n, ctl, "apply")
	r.wg.Add(1)
	r.applyLoop()
	vDrain()
	vCheckInv(n, true, true)
	vAssert(ctl.waits == 2, "C18.apply-loop-returns-to-wait")
	vAssert(post.applied == pre.commit, "C01|C15.configuration-entry-applied")
	vAssert(len(n.fsm.applied) == 0, "C01.configuration-entry-not-handed-to-state-machine")
	stale := next.Index <= preCommittedIdx
	if stale {
		vCover("stale-configuration-ignored")
		vAssert(vAnd(r.configuration == preCfg, r.committedConfiguration.Index == preCommittedIdx), "C09.older-configuration-ignored")
		return
	}
	vCover("configuration-applied")
	vAssert(r.committedConfiguration.Index == next.Index, "C09.applied-configuration-is-the-committed-one")
	if next.Index < preCfgIdx {
		// a more recent configuration is already in force (it is from the moment it is in the log): applying an
		// older one must not put the node back
		vCover("newer-configuration-stays-in-force")
		vAssert(r.configuration == preCfg, "C01|C02|C09.applying-a-configuration-keeps-a-more-recent-one-in-force")
		return
	}
	vAssert(r.configuration.Index == next.Index, "C09.applied-configuration-in-force-and-committed")
	for _, id := range ids {
		m0, v0 := vCfgHas(next, id)
		m1, v1 := vCfgHas(r.configuration, id)
		vAssert(vAnd(m0 == m1, vImplies(m0, v0 == v1)), "C09|C19.applied-configuration-equals-entry")
		_, hasF := r.followers[id]
		vAssert(vImplies(m0, hasF), "C09|INV.followers-cover-members")
	}
	if own {
		vCover("own-change-applied")
		vAssert(len(ch) == 1, "C09|C18.membership-future-resolved-on-apply")
		if len(ch) == 1 {
			res := <-ch
			vAssert(res.Error() == nil, "C09|C18.membership-future-succeeds")
			got := res.Success()
			vAssert(got.Index == next.Index, "C09.future-reports-the-applied-configuration")
			vAssert(got.Index <= post.commit, "C09.future-reports-a-committed-configuration")
			for _, id := range ids {
				m0, v0 := vCfgHas(next, id)
				m1, v1 := vCfgHas(&got, id)
				vAssert(vAnd(m0 == m1, vImplies(m0, v0 == v1)), "C09.future-configuration-contains-the-change")
			}
		}
		vAssert(r.configurationResponseCh == nil, "C09.membership-future-unregistered")
		r.mu.Lock()
		vAssert(!r.pendingConfigurationChange(), "C09|C15.applied-change-unblocks-further-changes")
		r.mu.Unlock()
	}
	if pre.state == Leader {
		if selfStays {
			vAssert(ctl.postState == Leader, "C16.leader-stays-when-still-member")
			vAssert(len(chRep) == 0, "C03.pending-untouched-while-leader")
		} else {
			vCover("leader-removed")
			vAssert(ctl.postState == Follower, "C09.removed-leader-steps-down")
			vAssert(len(chRep) == 1, "C03|C18.pending-failed-when-removed-leader-steps-down")
			vAssert(post.term == pre.term, "C16.removal-stepdown-keeps-term")
		}
	}
}
