package raft

import "time"

// vh_IS: the InstallSnapshot handler from an arbitrary node state (with or without a partially
// received snapshot file) and an arbitrary request (L1). The two yield points inside the handler
// (applyCond.Wait, the unlocked fsm.Restore) run harness hooks.
// GA1: a leader of term t never receives a request of term t.
// GA2': the snapshot boundary agrees with the receiver's log wherever that index is committed there.
// Obligations: C11.mono, C11.keep, C10.install, C10.recvConfig, C11 chunk handling, C08 term rules.

func vBuildCfg(name string, ids []string) *Configuration {
	c := &Configuration{Members: map[string]string{}, IsVoter: map[string]bool{}, Index: vNondetU64(name + ".index")}
	for _, id := range ids {
		if vNondetBool(name + ".member." + id) {
			c.Members[id] = "addr-" + id
			c.IsVoter[id] = vNondetBool(name + ".voter." + id)
		}
	}
	return c
}

func vSymBytes(name string, n int) []byte {
	b := make([]byte, n)
	for i := range b {
		b[i] = vNondetByte(name)
	}
	return b
}

func vh_IS() {
	ids := []string{"n1", "n2"}
	n := vBuildNode(vNodeSpec{name: "f", self: "n1", ids: ids, maxLog: vBound("log"), snap: true,
		states: []State{Follower, Candidate, Leader}, members: "all-voters"})
	r := n.r
	vSetContact(r, "f")
	// a partially received snapshot
	var partial *vSnapFile
	var partialRec *vSnapRec
	var Lp, Tp uint64
	plen := 0
	if vNondetBool("partial") {
		Lp = vNondetU64("partial.label")
		vAssume(vAnd(Lp >= 1, Lp < vMaxIdx))
		plen = vChoose("partial.len", vBound("chunk")+1)
		Tp = vNondetU64("partial.term")
		f, _ := n.snaps.NewSnapshotFile(Lp, Tp, []byte{0})
		_, _ = f.Write(vSymBytes("partial.byte", plen))
		partial = f.(*vSnapFile)
		partialRec = partial.rec
		r.snapshot = f
		vTag("partial", "yes")
	}
	cfg := &Configuration{Members: map[string]string{"n1": "addr-n1"}, IsVoter: map[string]bool{"n1": vNondetBool("scfg.voter.n1")}, Index: vNondetU64("scfg.index")}
	if vNondetBool("scfg.member.n2") {
		cfg.Members["n2"] = "addr-n2"
		cfg.IsVoter["n2"] = vNondetBool("scfg.voter.n2")
	}
	cfgData, _ := n.tr.EncodeConfiguration(cfg)
	blen := vChoose("req.len", vBound("chunk")+1)
	req := &InstallSnapshotRequest{
		LeaderID:          vNondetStr("req.leader", "n1", "n2"),
		Term:              vNondetU64("req.term"),
		LastIncludedIndex: vNondetU64("req.label"),
		LastIncludedTerm:  vNondetU64("req.labelTerm"),
		Configuration:     cfgData,
		Bytes:             vSymBytes("req.byte", blen),
		Offset:            vNondetI64("req.offset"),
		Done:              vNondetBool("req.done"),
	}
	L := req.LastIncludedIndex
	vAssume(vAnd(L >= 1, L < vMaxIdx))
	vAssume(vNot(vAnd(r.state == Leader, req.Term == r.currentTerm))) // GA1
	if partial != nil {
		if Lp > L {
			vTag("partial-vs-request", "newer")
		} else if Lp == L {
			vTag("partial-vs-request", "same")
			// a term has one leader and a leader one snapshot per label: same label => same snapshot
			vAssume(Tp == req.LastIncludedTerm)
		} else {
			vTag("partial-vs-request", "older")
		}
	}
	pre := vSnapshotNode(n)
	// GA2'
	if bt, ok := vTermAtSym(&pre, L); ok {
		vAssume(vImplies(L <= pre.commit, bt == req.LastIncludedTerm))
	}
	preVisible := n.snaps.visibleCount()
	// a deposed leader may still have an uncommitted configuration in force (AddServer switches at append)
	if partial == nil && vNondetBool("uncommitted-config-in-force") {
		vAssume(r.configuration.Index < vMaxIdx)
		r.committedConfiguration.Index = r.configuration.Index
		r.configuration.Index = r.configuration.Index + 1 + vNondetU64("cfg.ahead")%4
		vTag("uncommitted-config-in-force", "yes")
	}
	preCommittedIdx := r.committedConfiguration.Index
	waits := 0
	n.hook = func(which string) {
		if which != "apply" {
			return
		}
		// IS.w: the apply loop (or Stop) runs while the handler waits
		waits++
		vAssume(waits <= 2)
		if vNondetBool("wait.shutdown") {
			r.state = Shutdown
			return
		}
		na := vNondetU64("wait.applied")
		vAssume(vAnd(na >= r.lastApplied, na <= r.commitIndex))
		r.lastApplied = na
	}
	// C14 ordering: close(rename) first, then the boundary, then the log
	n.snaps.onVisible = func(rec *vSnapRec) {
		vAssert(vAnd(r.lastIncludedIndex == pre.lastIncludedIndex, vAnd(n.log.entries[0].Index == pre.firstIndex, len(n.log.entries) == pre.logLen)), "C14.snapshot-visible-before-boundary-and-log-change")
	}
	restoredThrough := uint64(0)
	stopDuringRestore := vNondetBool("stop-during-restore")
	n.fsm.onRest = func() {
		vAssert(!vHeld(&r.mu), "C20.lock-released-around-restore")
		restoredThrough = n.fsm.through
		if stopDuringRestore {
			// the application stops the node while the state machine is being restored (lock released)
			vTag("stop-during-restore", "yes")
			r.Stop()
		}
	}

	resp := &InstallSnapshotResponse{}
	err := r.InstallSnapshot(req, resp)
	vDrain()
	vAssert(!vHeld(&r.mu), "C18|C20.lock-released")
	vAssert(err == nil, "C18.is-total")
	if r.state == Shutdown {
		// stopped while waiting or while restoring: the handler returned without aborting the process
		vCover("shutdown-during-install")
		return
	}
	post := vSnapshotNode(n)
	vCheckInv(n, true, true)
	// ---- term rules (C08/C02/C16)
	vAssert(post.term >= pre.term, "C08.termMono")
	vAssert(vAnd(resp.Term >= pre.term, resp.Term <= post.durTerm), "C08.reply-term-bounded")
	vAssert(vAnd(post.durTerm == post.term, post.durVote == post.votedFor), "C02|C08.persisted(N3)")
	vAssert(vImplies(vAnd(post.term == pre.term, pre.votedFor != ""), post.votedFor == pre.votedFor), "C01|C02|C07|C08.vote-stable(G2)")
	vAssert(vImplies(vAnd(pre.state == Leader, post.state != Leader), req.Term > pre.term), "C16.leader-steps-down-only-on-higher-term")
	// ---- C11.mono
	vAssert(post.applied >= pre.applied, "C11.applied-monotone")
	vAssert(post.commit >= pre.commit, "C01|C11.commit-monotone")
	vAssert(post.lastIncludedIndex >= pre.lastIncludedIndex, "C11.boundary-monotone")
	newVisible := n.snaps.visibleCount() - preVisible
	vAssert(newVisible <= 1, "C11.at-most-one-snapshot-per-request")
	if req.Term < pre.term {
		vCover("stale-term")
		vAssert(vAnd(newVisible == 0, vAnd(post.logLen == pre.logLen, post.lastIncludedIndex == pre.lastIncludedIndex)), "C11.stale-term-no-effect")
		if partial != nil {
			vAssert(vAnd(!partial.closed, len(partialRec.data) == plen), "C11.stale-term-leaves-partial-file")
		}
		return
	}
	// every current-term request is leader contact
	vAssert(time.Since(r.lastContact) < vTimeMargin, "C16|C17.contact-recorded-for-every-current-term-request")
	// C15.transfer (progress): the last chunk of a new snapshot at the expected offset installs it
	expectedOff := int64(0)
	if partial != nil && Lp >= L && pre.state == Follower && req.Term == pre.term {
		expectedOff = int64(plen)
	}
	if req.Done && L > pre.applied && L > pre.lastIncludedIndex && req.Offset == expectedOff && waits == 0 {
		vAssert(newVisible == 1, "C15.last-chunk-at-expected-offset-installs")
	}
	if newVisible == 0 {
		vCover("not-installed")
		vAssert(vAnd(post.lastIncludedIndex == pre.lastIncludedIndex, post.logLen == pre.logLen), "C11.no-install-no-boundary-change")
		vAssert(vAnd(post.applied == pre.applied || waits > 0, post.commit == pre.commit), "C11.no-install-no-index-change")
		return
	}
	vCover("installed")
	rec := n.snaps.latest()
	// ---- installation only of something new, with the request's identity and bytes
	vAssert(req.Done, "C11.install-only-on-last-chunk")
	vAssert(vAnd(L > pre.applied, L > pre.lastIncludedIndex), "C10|C11.install-only-newer-than-applied-and-boundary")
	vAssert(vAnd(rec.meta.LastIncludedIndex == L, rec.meta.LastIncludedTerm == req.LastIncludedTerm), "C10|C11.visible-snapshot-carries-request-label")
	vAssert(vAnd(post.lastIncludedIndex == rec.meta.LastIncludedIndex, post.lastIncludedTerm == rec.meta.LastIncludedTerm), "C10|C11.boundary-equals-visible-snapshot-label")
	if partial != nil && rec == partialRec {
		vCover("completed-partial-file")
		vAssert(Lp == L, "C11.chunk-appended-only-to-file-of-same-snapshot")
		vAssert(req.Offset == int64(plen), "C11.chunk-at-expected-offset")
	} else {
		vAssert(req.Offset == 0, "C11.fresh-file-starts-at-offset-zero")
		if partial != nil {
			vAssert(vAnd(partial.closed, !partialRec.visible), "C11.superseded-partial-file-discarded")
		}
	}
	vAssert(resp.BytesWritten == req.Offset+int64(blen), "C11|C15.reply-reports-bytes-written")
	tail := rec.data[len(rec.data)-blen:]
	for i := 0; i < blen; i++ {
		vAssert(tail[i] == req.Bytes[i], "C11|C19.chunk-bytes-written-verbatim")
	}
	vAssert(r.snapshot == nil, "C11.no-partial-file-after-install")
	// ---- C11.keep / C10.install
	bt, had := vTermAtSym(&pre, L)
	kept := had && L > pre.firstIndex && bt == req.LastIncludedTerm
	vTagBool("boundary-entry-matches", kept)
	if kept {
		vCover("suffix-kept")
		// compacted: the suffix after the label survives behind a placeholder (label, term)
		vAssert(vAnd(post.firstIndex == L, post.terms[0] == req.LastIncludedTerm), "C11.placeholder-is-snapshot-label")
		vAssert(vAnd(post.lastIndex == pre.lastIndex, post.lastTerm == pre.lastTerm), "C11.compaction-keeps-last-index-and-term")
		off := vConcretize(L-pre.firstIndex, pre.logLen)
		vAssert(post.logLen == pre.logLen-off, "C11.compaction-keeps-exactly-the-suffix")
		for j := 0; j < post.logLen && off+j < pre.logLen; j++ {
			vAssert(post.terms[j] == pre.terms[off+j], "C11.compaction-keeps-exactly-the-suffix")
		}
		vAssert(post.applied >= L, "C10.compaction-only-after-label-applied")
		vAssert(n.fsm.restores == 0, "C10.no-restore-when-log-reaches-label")
	} else {
		vCover("log-discarded")
		vAssert(vAnd(post.logLen == 1, vAnd(post.firstIndex == L, post.terms[0] == req.LastIncludedTerm)), "C11.discarded-log-is-placeholder")
		vAssert(vAnd(post.applied == L, post.commit == L), "C10.install-sets-applied-and-commit-to-label")
		vAssert(n.fsm.restores == 1, "C10.state-machine-restored-once")
		vAssert(restoredThrough == n.fsm.through, "C10.restore-from-installed-snapshot")
		// C10.recvConfig
		// the whole log was discarded: the configuration in force afterwards is one that is committed (the
		// snapshot's or the one committed before), never an uncommitted one whose entry is gone
		vAssert(vOr(r.configuration.Index == cfg.Index, r.configuration.Index <= preCommittedIdx), "C09|C10.no-uncommitted-configuration-in-force-after-log-discard")
		if cfg.Index > preCommittedIdx {
			vCover("configuration-installed")
			vAssert(vAnd(r.configuration.Index == cfg.Index, r.committedConfiguration.Index == cfg.Index), "C10.configuration-from-snapshot")
			for _, id := range ids {
				m0, v0 := vCfgHas(cfg, id)
				m1, v1 := vCfgHas(r.configuration, id)
				vAssert(vAnd(m0 == m1, vImplies(m0, v0 == v1)), "C10|C19.configuration-from-snapshot")
			}
		}
	}
}

// vTermAtSym is vTermAt for an index that is symbolic relative to the log (forks over positions).
func vTermAtSym(s *vSnap, idx uint64) (uint64, bool) {
	if idx < s.firstIndex || idx > s.lastIndex {
		return 0, false
	}
	return s.terms[vConcretize(idx-s.firstIndex, s.logLen)], true
}
