package raft

import "time"

// vh_CFG: AddServer / RemoveServer with every argument (known/unknown/own id, voter flag) from an
// arbitrary node state (L1). Obligations: C09.guard, C09.pending, C04.leaderDurable, C18.future.

func vCfgHas(c *Configuration, id string) (member bool, voter bool) {
	_, member = c.Members[id]
	return member, c.IsVoter[id]
}

func vh_CFG() {
	ids := []string{"n1", "n2", "n3"}
	all := []string{"n1", "n2", "n3", "n4"}
	n := vBuildNode(vNodeSpec{name: "l", self: "n1", ids: ids, maxLog: vBound("log"),
		states: []State{Leader, Follower, Candidate, Shutdown}, members: "any", snap: true})
	r := n.r
	vAssume(n.log.LastTerm() <= r.currentTerm)
	vAssume(vImplies(r.state == Leader, n.log.LastTerm() == r.currentTerm))
	// an earlier change may still be uncommitted: the committed configuration is then older
	pendingBefore := vNondetBool("pendingBefore")
	if pendingBefore {
		vAssume(r.configuration.Index >= 1)
		r.committedConfiguration.Index = r.configuration.Index - 1
	}
	// ... or accepted by this leader and not applied yet
	if r.state == Leader && vNondetBool("ownChangeInFlight") {
		r.configurationResponseCh = make(chan Result[Configuration], 1)
		pendingBefore = true
	}
	remove := vNondetBool("remove")
	id := all[vChoose("id", 4)]
	isVoter := vNondetBool("isVoter")
	vTagBool("remove", remove)
	vTag("id", id)
	pre := vSnapshotNode(n)
	preCfg := r.configuration.Clone()
	preCfgPtr := r.configuration
	committedThisTerm := vAnd(r.state != Shutdown, vRefCommittedThisTerm(&pre))

	var fut Future[Configuration]
	if remove {
		fut = r.RemoveServer(id, time.Second)
	} else {
		fut = r.AddServer(id, "addr-"+id, isVoter, time.Second)
	}
	durableLen := len(n.log.entries)
	vDrain()
	post := vSnapshotNode(n)
	f := fut.(*future[Configuration])
	if r.state != Shutdown {
		vCheckInv(n, true, true)
	}
	vAssert(!vHeld(&r.mu), "C18|C20.lock-released")
	vAssert(vAnd(post.term == pre.term, vAnd(post.state == pre.state, post.commit == pre.commit)), "C02.membership-call-keeps-role-term-commit")

	if post.logLen == pre.logLen {
		vCover("not-appended")
		vAssert(len(f.responseCh) == 1, "C18.refused-or-noop-change-resolves-at-once")
		vAssert(r.configuration == preCfgPtr, "C09.refused-change-keeps-configuration")
		if len(f.responseCh) == 1 {
			res := <-f.responseCh
			if pre.state != Leader {
				vAssert(res.Error() == ErrNotLeader, "C09|C18.non-leader-refuses")
			} else if !committedThisTerm {
				vAssert(res.Error() == ErrNoCommitThisTerm, "C09.refused-before-commit-in-term")
			} else if pendingBefore {
				vAssert(res.Error() == ErrPendingConfiguration, "C09.refused-while-change-pending")
			} else {
				// nothing to do: the configuration already is as requested
				vAssert(res.Error() == nil, "C09.noop-change-succeeds")
				m, v := vCfgHas(&preCfg, id)
				if remove {
					vAssert(!m, "C09.noop-removal-only-of-non-member")
				} else {
					vAssert(vAnd(m, v == isVoter), "C09.noop-add-only-if-already-so")
				}
			}
		}
		return
	}
	vCover("appended")
	// ---- C09.guard
	vAssert(pre.state == Leader, "C09.only-leader-changes-membership")
	vAssert(committedThisTerm, "C09.change-needs-commit-in-current-term")
	vAssert(!pendingBefore, "C09.one-change-at-a-time")
	vAssert(post.logLen == pre.logLen+1, "C09.exactly-one-entry")
	if post.logLen != pre.logLen+1 {
		return
	}
	e := n.log.entries[post.logLen-1]
	vAssert(vAnd(e.Index == pre.lastIndex+1, vAnd(e.Term == pre.term, e.EntryType == ConfigurationEntry)), "C09.configuration-entry-at-next-index")
	vAssert(durableLen == post.logLen, "C04.configuration-entry-synced-before-return")
	next, derr := n.tr.DecodeConfiguration(e.Data)
	vAssert(derr == nil, "C09|C19.configuration-entry-decodes")
	if derr != nil {
		return
	}
	vAssert(next.Index == e.Index, "C09.configuration-carries-its-log-index")
	// differs from the configuration in force by exactly the requested server
	for _, x := range all {
		m0, v0 := vCfgHas(&preCfg, x)
		m1, v1 := vCfgHas(&next, x)
		if x != id {
			vAssert(vAnd(m0 == m1, vImplies(m0, v0 == v1)), "C09.other-servers-unchanged")
			continue
		}
		if remove {
			vAssert(vAnd(m0, !m1), "C09.removal-removes-exactly-the-server")
		} else {
			vAssert(vAnd(m1, v1 == isVoter), "C09.add-sets-requested-status")
			vAssert(vOr(!m0, v0 != isVoter), "C09.add-changes-something")
		}
	}
	// ---- C09.pending: until applied, the change blocks further changes
	r.mu.Lock()
	pendingAfter := r.pendingConfigurationChange()
	r.mu.Unlock()
	vAssert(pendingAfter, "C09.accepted-change-is-pending")
	// ---- C18.future: the future is stored where the apply loop answers it
	vAssert(len(f.responseCh) == 0, "C09.accepted-change-not-resolved-before-commit")
	vAssert(r.configurationResponseCh == f.responseCh, "C09|C18.accepted-change-future-registered")
	vCoverIf(remove, "removal-appended")
	vCoverIf(!remove, "add-appended")
}
