package raft

// vh_TS: takeSnapshot from an arbitrary node state (L1). While the lock is released around
// fsm.Snapshot the harness lets (a) nothing, (b) one applyLoop step, (c) a snapshot installation
// happen - the activities the rely allows there.
// Obligations: C10.guard, C10.label, C11 (compaction keeps the suffix), C14 ordering (visible before compact).

func vh_TS() {
	ids := []string{"n1", "n2"}
	n := vBuildNode(vNodeSpec{name: "s", self: "n1", ids: ids, maxLog: vBound("log"), snap: true,
		states: []State{Follower, Leader}, members: "all-voters"})
	r := n.r
	// the state machine reflects exactly the applied prefix (C10 invariant between restores)
	n.fsm.through = r.lastApplied
	// N6: the committed configuration may or may not be applied yet
	r.committedConfiguration.Index = vNondetU64("s.committedCfgIndex")
	pre := vSnapshotNode(n)
	window := vChoose("window", 3)
	vTagInt("window", window)
	// C14 ordering: at the instant the snapshot becomes visible the log must still hold everything
	// (a crash right after must not leave a compacted log without its snapshot)
	n.snaps.onVisible = func(rec *vSnapRec) {
		if window != 2 {
			vAssert(vAnd(n.log.entries[0].Index == pre.firstIndex, len(n.log.entries) == pre.logLen), "C14.snapshot-visible-before-log-is-compacted")
			vAssert(r.lastIncludedIndex == pre.lastIncludedIndex, "C14.boundary-moves-only-after-snapshot-is-visible")
		}
	}
	var localRec *vSnapRec
	n.fsm.onSnap = func() {
		vAssert(!vHeld(&r.mu), "C20.lock-released-around-snapshot")
		localRec = n.snaps.recs[len(n.snaps.recs)-1]
		switch window {
		case 1:
			// applyLoop applies one more committed operation before the state machine serialises itself
			if r.lastApplied < r.commitIndex {
				r.lastApplied++
				n.fsm.through = r.lastApplied
				vCover("apply-in-window")
			} else {
				vAssume(false)
			}
		case 2:
			// a snapshot with a larger label is installed meanwhile (log discarded)
			nl := vNondetU64("window.installed")
			vAssume(vAnd(nl > r.lastApplied, nl < vMaxIdx))
			r.lastIncludedIndex, r.lastIncludedTerm = nl, vNondetU64("window.installedTerm")
			r.lastApplied, r.commitIndex = nl, nl
			n.fsm.through = nl
			n.log.entries = []*LogEntry{{Index: nl, Term: r.lastIncludedTerm}}
			// the received snapshot is visible now. Its file was created when its first chunk arrived: after this
			// node created its own snapshot file, or before (a partially received file that was waiting for its last chunk)
			irec := &vSnapRec{meta: SnapshotMetadata{LastIncludedIndex: nl, LastIncludedTerm: r.lastIncludedTerm}, visible: true}
			k := len(n.snaps.recs) - 1 // the local snapshot's record, created last so far
			if vNondetBool("window.received-file-created-first") {
				recs := append([]*vSnapRec{}, n.snaps.recs[:k]...)
				recs = append(recs, irec, n.snaps.recs[k])
				n.snaps.recs = recs
				vTag("received-file", "created-before-the-local-one")
			} else {
				n.snaps.recs = append(n.snaps.recs, irec)
				vTag("received-file", "created-after-the-local-one")
			}
			vCover("install-in-window")
		}
	}
	r.mu.Lock()
	r.takeSnapshot()
	r.mu.Unlock()
	vDrain()
	vCheckInv(n, true, true)
	post := vSnapshotNode(n)
	vAssert(!vHeld(&r.mu), "C18|C20.lock-released")
	// C10.newest: whatever happened, the snapshot the storage hands out as the most recent one (latest creation) is the
	// one the log starts at - a restart restores from it and replays the log from there
	if lr := n.snaps.latest(); lr != nil {
		vAssert(lr.meta.LastIncludedIndex == post.lastIncludedIndex, "C10|C13|C14.most-recent-snapshot-is-the-one-the-log-starts-at")
	}
	taken := localRec != nil && localRec.visible
	guardBlocks := pre.applied <= pre.lastIncludedIndex || r.committedConfiguration.Index > pre.applied
	vAssert(vAnd(post.term == pre.term, post.state == pre.state), "C02.snapshot-keeps-role-and-term")
	if !taken && window == 2 && localRec != nil {
		// overtaken by the installation: the file this node wrote meanwhile never becomes visible
		vCover("overtaken-snapshot-discarded")
		vAssert(vAnd(localRec.discarded, !localRec.visible), "C10|C13|C14.snapshot-overtaken-by-an-installation-is-discarded")
		vAssert(vAnd(post.lastIncludedIndex > pre.applied, post.logLen == 1), "C10|C11.no-compaction-below-installed-snapshot")
		return
	}
	if !taken {
		vCover("not-taken")
		vAssert(guardBlocks, "C10.snapshot-taken-when-there-is-something-new")
		vAssert(vAnd(post.lastIncludedIndex == pre.lastIncludedIndex, post.logLen == pre.logLen), "C10|C11.no-snapshot-no-compaction")
		return
	}
	vCover("taken")
	// ---- C10.guard
	vAssert(pre.applied > pre.lastIncludedIndex, "C10.snapshot-only-of-new-state")
	vAssert(r.committedConfiguration.Index <= pre.applied, "C10.no-snapshot-with-unapplied-configuration-change")
	rec := localRec
	vAssert(rec.visible, "C14.snapshot-visible-at-return")
	// ---- C10.label: label = an applied index of this node, with that entry's term
	L := rec.meta.LastIncludedIndex
	vAssert(L == pre.applied, "C10.label-is-lastApplied")
	if lt, ok := vTermAtSym(&pre, L); ok {
		vAssert(rec.meta.LastIncludedTerm == lt, "C10|C11.label-term-is-entry-term")
	} else {
		vAssert(false, "C10.label-within-log")
	}
	// content: the payload names the applied prefix it reflects
	vAssert(len(rec.data) == 8, "C10.payload-written")
	tag := uint64(0)
	for i := 0; i < 8 && i < len(rec.data); i++ {
		tag |= uint64(rec.data[i]) << (8 * uint(i))
	}
	vAssert(tag == L, "C10.snapshot-content-is-exactly-the-labelled-prefix")
	// configuration committed at the label
	gotCfg, derr := n.tr.DecodeConfiguration(rec.meta.Configuration)
	vAssert(vAnd(derr == nil, gotCfg.Index == r.committedConfiguration.Index), "C10.snapshot-carries-committed-configuration")
	// ---- a snapshot that became visible was not overtaken by an installation
	vAssert(window != 2, "C10|C13|C14.snapshot-overtaken-by-an-installation-is-discarded")
	if window == 2 {
		return
	}
	vAssert(vAnd(post.lastIncludedIndex == L, post.lastIncludedTerm == rec.meta.LastIncludedTerm), "C10|C11.boundary-is-label")
	vAssert(vAnd(post.firstIndex == L, vAnd(post.lastIndex == pre.lastIndex, post.lastTerm == pre.lastTerm)), "C11.compaction-keeps-last-index-and-term")
	off := vConcretize(L-pre.firstIndex, pre.logLen)
	vAssert(post.logLen == pre.logLen-off, "C11.compaction-keeps-exactly-the-suffix")
	for j := 0; j < post.logLen && off+j < pre.logLen; j++ {
		vAssert(post.terms[j] == pre.terms[off+j], "C11.compaction-keeps-exactly-the-suffix")
	}
	vAssert(vAnd(post.applied >= pre.applied, post.commit >= pre.commit), "C11.snapshot-never-moves-indices-back")
}
