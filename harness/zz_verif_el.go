package raft

// vh_EL: one run of election() (the body of electionLoop) from an arbitrary node state (L1),
// followed by the spawned sendRequestVote goroutines up to their send (background mode).
// Obligations: C02.cand / C02.send, C07.req, C08.persistFirst, C09|C16.nonvoter, C16.noBump, C16.isolated
// (two further timeouts of the same, cut-off node).

func vh_EL() {
	ids := []string{"n1", "n2", "n3"}
	n := vBuildNode(vNodeSpec{name: "c", self: "n1", ids: ids, maxLog: vBound("log"),
		states: []State{Follower, PreCandidate, Candidate, Leader, Shutdown}, members: "any"})
	r := n.r
	recent := vSetContact(r, "c")
	vAssume(n.log.LastTerm() <= r.currentTerm) // N1
	// N4: a leader voted for itself in its term
	vAssume(vImplies(r.state == Leader, r.votedFor == "n1"))
	// N4': a candidate voted for itself (it entered the term through becomeCandidate) unless it has
	// only just won a prevote (state set to Candidate by sendRequestVote, campaign not yet started)
	pre := vSnapshotNode(n)
	selfVoter := vRefIsVoter(r.configuration, "n1")
	// the only voter of the configuration (whatever non-voting members there are) is its own majority
	single := selfVoter && vRefVoters(r.configuration, ids) == 1
	vTagBool("selfVoter", selfVoter)
	vTagBool("single", single)
	vTagBool("recent", recent)

	r.mu.Lock()
	r.election()
	r.mu.Unlock()
	midState := r.state
	midTerm := r.currentTerm
	midDurTerm, midDurVote := n.st.term, n.st.vote
	vDrain()
	post := vSnapshotNode(n)

	if r.state != Shutdown {
		vCheckInv(n, true, true)
	}
	vAssert(post.term >= pre.term, "C08.termMono")
	vAssert(vAnd(midDurTerm == midTerm, midDurVote == r.votedFor), "C02|C08.persisted-before-any-send(N3)")
	vAssert(vAnd(post.logLen >= pre.logLen, post.commit == pre.commit), "C01|C07.election-no-log-loss")

	idle := pre.state == Leader || pre.state == Shutdown || !selfVoter || recent
	if idle {
		vCover("idle")
		vAssert(vAnd(vAnd(post.term == pre.term, post.votedFor == pre.votedFor), post.state == pre.state), "C09|C16.no-campaign-when-nonvoter-leader-or-recent-contact")
		vAssert(len(n.tr.sent) == 0, "C09|C16.no-request-when-nonvoter-leader-or-recent-contact")
		vAssert(post.writes == pre.writes, "C16.no-write-when-idle")
		return
	}
	// the term grows only by a candidacy: by exactly one, with a durable self-vote, and election() itself starts
	// one only for a single voter (its own quorum) or to complete the hand-off of a prevote that was just won
	// (state Candidate on entry); every other timeout starts a prevote round, which changes nothing durable
	if midTerm != pre.term {
		vCover("candidacy")
		vAssert(midTerm == pre.term+1, "C02|C16.candidacy-increments-term-by-one")
		vAssert(vAnd(r.votedFor == "n1", vAnd(midDurVote == "n1", midDurTerm == pre.term+1)), "C02|C08.candidacy-self-vote-durable")
		vAssert(single || pre.state == Candidate, "C16.no-term-bump-without-prevote-quorum")
	} else {
		vCover("prevote-round")
		vAssert(vAnd(r.votedFor == pre.votedFor, post.writes == pre.writes), "C08|C16.prevote-round-keeps-vote")
		vAssert(midState == PreCandidate, "C16.prevote-round-state")
	}
	vAssert(vImplies(single, midState == Leader), "C15.sole-voter-elects-itself")
	if midState == Leader {
		vCover("became-leader")
		vAssert(single, "C02.only-single-voter-wins-without-votes")
		// a node that leads term t voted for itself in t, and t is a term it entered as a candidate
		vAssert(r.votedFor == "n1", "C02.leader-voted-for-itself")
		vAssert(vAnd(midDurVote == "n1", midDurTerm == midTerm), "C02|C08.leader-self-vote-durable")
		vAssert(vOr(pre.state == Candidate, midTerm > pre.term), "C02.leader-only-through-candidacy")
		return
	}
	// requests: one per voting peer, none to non-voters or non-members, truthful content
	want := 0
	for _, id := range ids[1:] {
		if _, ok := r.configuration.Members[id]; ok && r.configuration.IsVoter[id] {
			want++
		}
	}
	vAssert(len(n.tr.sent) == want, "C02|C09.one-request-per-voting-peer")
	for i := range n.tr.sent {
		s := &n.tr.sent[i]
		vAssert(s.kind == "RV", "C02.election-sends-only-vote-requests")
		if s.kind != "RV" {
			continue
		}
		okAddr := false
		for _, id := range ids[1:] {
			if s.addr == "addr-"+id {
				_, m := r.configuration.Members[id]
				okAddr = m && r.configuration.IsVoter[id]
			}
		}
		vAssert(okAddr, "C09|C16.vote-requested-only-from-voting-members")
		vAssert(s.rv.CandidateID == "n1", "C02.request-names-sender")
		vAssert(s.rv.Prevote == (midState == PreCandidate), "C02|C16.prevote-flag-matches-role")
		if s.rv.Prevote {
			vAssert(s.rv.Term == midTerm+1, "C16.prevote-carries-next-term")
		} else {
			vAssert(s.rv.Term == midTerm, "C02.vote-request-carries-current-term")
			vAssert(vAnd(midDurTerm == s.rv.Term, midDurVote == "n1"), "C02|C08.self-vote-durable-before-request")
		}
		vAssert(vAnd(s.rv.LastLogIndex == post.lastIndex, s.rv.LastLogTerm == post.lastTerm), "C07.request-carries-real-last-entry")
	}
	vCoverIf(want > 0, "requests-sent")
	// C16.isolated: the node stays cut off (every send fails, no reply ever arrives) while its election timer
	// fires twice more. Without a prevote quorum its term must not move; the only increment there may be is the
	// candidacy of a prevote that had been won before the node was cut off.
	for i := 0; i < 2; i++ {
		r.mu.Lock()
		r.election()
		r.mu.Unlock()
		vDrain()
	}
	vAssert(r.currentTerm <= pre.term+1, "C16.isolated-node-term-grows-at-most-once")
	vAssert(vImplies(pre.state != Candidate, r.currentTerm == pre.term), "C16.isolated-node-without-prevote-quorum-keeps-term")
	vAssert(vAnd(n.st.term == r.currentTerm, n.st.vote == r.votedFor), "C02|C08.persisted(N3)")
	vCover("isolated-timeouts")
}
