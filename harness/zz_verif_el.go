package raft

// vh_EL: one run of election() (the body of electionLoop) from an arbitrary node state (L1),
// followed by the spawned sendRequestVote goroutines up to their send (background mode).
// Obligations: C02.cand / C02.send, C07.req, C08.persistFirst, C09|C16.nonvoter, C16.noBump.

func vh_EL() {
	ids := []string{"n1", "n2", "n3"}
	n := vBuildNode(vNodeSpec{name: "c", self: "n1", ids: ids, maxLog: vBound("log"),
		states: []State{Follower, PreCandidate, Candidate, Leader, Shutdown}, members: "any"})
	r := n.r
	recent := vSetContact(r, "c")
	vAssume(n.log.LastTerm() <= r.currentTerm) // N1
	// N4: a leader voted for itself in its term
	vAssume(vImplies(r.state == Leader, r.votedFor == "n1"))
	// N4': a candidate voted for itself (it entered the term through becomeCandidate) unless it has
	// only just won a prevote (state set to Candidate by sendRequestVote, campaign not yet started)
	pre := vSnapshotNode(n)
	selfVoter := r.isVoter("n1")
	single := r.isSingleServerCluster()
	vTagBool("selfVoter", selfVoter)
	vTagBool("single", single)
	vTagBool("recent", recent)

	r.mu.Lock()
	r.election()
	r.mu.Unlock()
	midState := r.state
	midTerm := r.currentTerm
	midDurTerm, midDurVote := n.st.term, n.st.vote
	vDrain()
	post := vSnapshotNode(n)

	if r.state != Shutdown {
		vCheckInv(n, true, true)
	}
	vAssert(post.term >= pre.term, "C08.termMono")
	vAssert(vAnd(midDurTerm == midTerm, midDurVote == r.votedFor), "C02|C08.persisted-before-any-send(N3)")
	vAssert(vAnd(post.logLen >= pre.logLen, post.commit == pre.commit), "C01|C07.election-no-log-loss")

	idle := pre.state == Leader || pre.state == Shutdown || !selfVoter || recent
	if idle {
		vCover("idle")
		vAssert(vAnd(vAnd(post.term == pre.term, post.votedFor == pre.votedFor), post.state == pre.state), "C09|C16.no-campaign-when-nonvoter-leader-or-recent-contact")
		vAssert(len(n.tr.sent) == 0, "C09|C16.no-request-when-nonvoter-leader-or-recent-contact")
		vAssert(post.writes == pre.writes, "C16.no-write-when-idle")
		return
	}
	// the term grows only by a real candidacy (state Candidate on entry), by exactly one, with a durable self-vote
	if pre.state == Candidate {
		vCover("candidacy")
		vAssert(midTerm == pre.term+1, "C02|C16.candidacy-increments-term-by-one")
		vAssert(vAnd(r.votedFor == "n1", vAnd(midDurVote == "n1", midDurTerm == pre.term+1)), "C02|C08.candidacy-self-vote-durable")
	} else {
		vCover("prevote-round")
		vAssert(single || midTerm == pre.term, "C16.no-term-bump-without-prevote-quorum")
		vAssert(single || vAnd(r.votedFor == pre.votedFor, post.writes == pre.writes), "C08|C16.prevote-round-keeps-vote")
		vAssert(single || midState == PreCandidate, "C16.prevote-round-state")
	}
	if midState == Leader {
		vCover("became-leader")
		vAssert(single, "C02.only-single-voter-wins-without-votes")
		// a node that leads term t voted for itself in t, and t is a term it entered as a candidate
		vAssert(r.votedFor == "n1", "C02.leader-voted-for-itself")
		vAssert(vAnd(midDurVote == "n1", midDurTerm == midTerm), "C02|C08.leader-self-vote-durable")
		vAssert(vOr(pre.state == Candidate, midTerm > pre.term), "C02.leader-only-through-candidacy")
		return
	}
	// requests: one per voting peer, none to non-voters or non-members, truthful content
	want := 0
	for _, id := range ids[1:] {
		if _, ok := r.configuration.Members[id]; ok && r.configuration.IsVoter[id] {
			want++
		}
	}
	vAssert(len(n.tr.sent) == want, "C02|C09.one-request-per-voting-peer")
	for i := range n.tr.sent {
		s := &n.tr.sent[i]
		vAssert(s.kind == "RV", "C02.election-sends-only-vote-requests")
		if s.kind != "RV" {
			continue
		}
		okAddr := false
		for _, id := range ids[1:] {
			if s.addr == "addr-"+id {
				_, m := r.configuration.Members[id]
				okAddr = m && r.configuration.IsVoter[id]
			}
		}
		vAssert(okAddr, "C09|C16.vote-requested-only-from-voting-members")
		vAssert(s.rv.CandidateID == "n1", "C02.request-names-sender")
		vAssert(s.rv.Prevote == (midState == PreCandidate), "C02|C16.prevote-flag-matches-role")
		if s.rv.Prevote {
			vAssert(s.rv.Term == midTerm+1, "C16.prevote-carries-next-term")
		} else {
			vAssert(s.rv.Term == midTerm, "C02.vote-request-carries-current-term")
			vAssert(vAnd(midDurTerm == s.rv.Term, midDurVote == "n1"), "C02|C08.self-vote-durable-before-request")
		}
		vAssert(vAnd(s.rv.LastLogIndex == post.lastIndex, s.rv.LastLogTerm == post.lastTerm), "C07.request-carries-real-last-entry")
	}
	vCoverIf(want > 0, "requests-sent")
}
