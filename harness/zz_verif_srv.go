package raft

// vh_SRV: one sendRequestVote goroutine (pre-segment, RPC, post-segment) from an arbitrary node
// state, with the node havocked under the rely while the RPC is in flight (L1).
// The goroutine may start arbitrarily late after it was spawned, so its pre-state is arbitrary too.
// GA3: the reply was produced by the real RequestVote handler for this request (facts discharged
// in vh_RV): a granted real vote carries the request's term; a granted prevote a term <= the request's.

// vHavocScalars replaces the mutex-protected scalar state of the node by arbitrary values allowed
// by the rely (DESIGN.md §2.3): term non-decreasing, vote stable within a term, commit non-decreasing.
func vHavocScalars(n *vNode, name string, states []State) {
	r := n.r
	oldTerm, oldVote, oldCommit := r.currentTerm, r.votedFor, r.commitIndex
	r.currentTerm = vNondetU64(name + ".term")
	vAssume(r.currentTerm >= oldTerm)
	vAssume(r.currentTerm < vMaxIdx)
	r.votedFor = vNondetStr(name+".votedFor", append([]string{""}, n.spec.ids...)...)
	vAssume(vImplies(vAnd(r.currentTerm == oldTerm, oldVote != ""), r.votedFor == oldVote)) // G2
	r.state = states[vChoose(name+".state", len(states))]
	vTagInt(name+".state", int(r.state))
	vAssume(vImplies(r.state == Leader, r.votedFor == r.id)) // N4
	if r.state == Leader {
		for _, f := range r.followers { // N7 while leading
			vAssume(f.matchIndex <= n.log.LastIndex())
		}
	}
	r.commitIndex = vNondetU64(name + ".commit")
	vAssume(vAnd(r.commitIndex >= oldCommit, r.commitIndex <= n.log.LastIndex()))
	n.st.term, n.st.vote = r.currentTerm, r.votedFor // N3
}

func vh_SRV() {
	ids := []string{"n1", "n2", "n3"}
	n := vBuildNode(vNodeSpec{name: "c", self: "n1", ids: ids, maxLog: vBound("log"),
		states: []State{Follower, PreCandidate, Candidate, Leader, Shutdown}, members: "any"})
	r := n.r
	vSetContact(r, "c")
	vAssume(vImplies(r.state == Leader, r.votedFor == "n1")) // N4
	vAssume(n.log.LastTerm() <= r.currentTerm)               // N1
	// replication state left over from an earlier leadership of this incarnation (any values)
	for _, id := range ids[1:] {
		if f, ok := r.followers[id]; ok {
			f.matchIndex = vNondetU64("c.match." + id)
			f.nextIndex = vNondetU64("c.next." + id)
			vAssume(vImplies(r.state == Leader, f.matchIndex <= n.log.LastIndex())) // N7 while leading
		}
	}
	// a partially received snapshot from an earlier leader (C11.reset: discarded when this node takes over)
	var recvFile *vSnapFile
	if vNondetBool("partial-snapshot") {
		pf, _ := n.snaps.NewSnapshotFile(vNondetU64("partial.label"), vNondetU64("partial.term"), []byte{0})
		recvFile = pf.(*vSnapFile)
		r.snapshot = pf
	}
	prevote := vNondetBool("prevote")
	votes := vNondetInt("votes")
	vAssume(vAnd(votes >= 1, votes <= 3))
	votes0 := votes
	// the election round this goroutine and its counter belong to was started in roundTerm
	roundTerm := vNondetU64("roundTerm")
	vAssume(roundTerm <= r.currentTerm)
	// A real (non-prevote) round of term t is spawned only after becomeCandidate voted for itself in t
	// (vh_EL: C02|C08.candidacy-self-vote-durable), and a vote is stable within its term (G2):
	vAssume(vImplies(vAnd(!prevote, roundTerm == r.currentTerm), r.votedFor == "n1"))
	target := ids[1+vChoose("target", 2)]
	nv := vRefVoters(r.configuration, ids)
	pre := vSnapshotNode(n)

	var sent *RequestVoteRequest
	var mid vSnap
	var resp RequestVoteResponse
	n.tr.onRV = func(addr string, req RequestVoteRequest) (RequestVoteResponse, error) {
		sent = &req
		// ---- obligations at the moment the request leaves the node (end of the pre-segment)
		at := vSnapshotNode(n)
		vAssert(!vHeld(&r.mu), "C20.lock-released-around-rpc")
		vAssert(vAnd(at.term == pre.term, vAnd(at.votedFor == pre.votedFor, at.state == pre.state)), "C02.pre-segment-changes-nothing")
		vAssert(addr == "addr-"+target, "C02.request-goes-to-target")
		vAssert(vAnd(vRefIsVoter(r.configuration, target), vRefIsVoter(r.configuration, "n1")), "C09|C16.only-voters-ask-only-voters")
		vAssert(req.CandidateID == "n1", "C02.request-names-sender")
		vAssert(vAnd(req.LastLogIndex == at.lastIndex, req.LastLogTerm == at.lastTerm), "C07.request-carries-real-last-entry")
		if req.Prevote {
			vAssert(req.Term == at.term+1, "C16.prevote-carries-next-term")
		} else {
			vAssert(vAnd(req.Term == at.term, req.Term == roundTerm), "C02.vote-request-carries-current-term")
			// a real vote request leaves only a node that is a candidate of that term with a durable self-vote
			vAssert(at.state == Candidate, "C02.real-vote-request-only-from-candidate")
			vAssert(vAnd(at.votedFor == "n1", vAnd(at.durVote == "n1", at.durTerm == req.Term)), "C02|C08.real-vote-request-only-after-durable-self-vote")
		}
		vAssert(req.Prevote == prevote, "C02.prevote-flag-kept")
		// ---- the RPC is in flight: other goroutines of this node run
		vHavocScalars(n, "h", []State{Follower, PreCandidate, Candidate, Leader, Shutdown})
		mid = vSnapshotNode(n)
		if vNondetBool("rpc.fails") {
			return RequestVoteResponse{}, errVBackground
		}
		resp = RequestVoteResponse{Term: vNondetU64("resp.term"), VoteGranted: vNondetBool("resp.granted")}
		// GA3 (discharged in vh_RV)
		vAssume(vImplies(vAnd(resp.VoteGranted, !req.Prevote), resp.Term == req.Term))
		vAssume(vImplies(vAnd(resp.VoteGranted, req.Prevote), resp.Term <= req.Term))
		return resp, nil
	}
	r.sendRequestVote(target, "addr-"+target, &votes, prevote, roundTerm)
	vDrain()
	vAssert(!vHeld(&r.mu), "C18|C20.lock-released")
	if sent == nil {
		vCover("not-sent")
		post := vSnapshotNode(n)
		vAssert(vAnd(post.term == pre.term, vAnd(post.state == pre.state, post.votedFor == pre.votedFor)), "C02.unsent-changes-nothing")
		vAssert(votes == votes0, "C02.unsent-counts-nothing")
		return
	}
	vCover("sent")
	post := vSnapshotNode(n)
	if r.state != Shutdown {
		vCheckInv(n, true, true)
	}
	vAssert(post.term >= mid.term, "C08.termMono")
	vAssert(vAnd(post.durTerm == post.term, post.durVote == post.votedFor), "C02|C08.persisted(N3)")
	vAssert(vImplies(vAnd(post.term == mid.term, mid.votedFor != ""), post.votedFor == mid.votedFor), "C01|C02|C07|C08.vote-stable(G2)")
	vAssert(vOr(votes == votes0, votes == votes0+1), "C02.counter-grows-by-at-most-one")
	vAssert(vImplies(votes == votes0+1, vAnd(resp.VoteGranted, mid.term <= sent.Term)), "C01|C02|C07.only-granted-current-replies-count")
	// ---- winning
	if post.state == Leader && mid.state != Leader {
		vCover("became-leader")
		vAssert(!prevote, "C02.prevotes-never-elect")
		vAssert(vAnd(post.term == sent.Term, post.term == mid.term), "C01|C02|C07.leader-of-the-term-votes-were-requested-for")
		vAssert(vAnd(post.votedFor == "n1", post.durVote == "n1"), "C02|C08.leader-voted-for-itself")
		vAssert(2*votes > nv, "C01|C02|C07|C09.leader-needs-majority-of-voters")
		// C07.appendOnly / C15.noop: leadership starts with one no-op entry of the new term, nothing rewritten,
		// and replication restarts right after the old end of the log
		vAssert(post.logLen == mid.logLen+1, "C07|C15.new-leader-appends-exactly-one-entry")
		if post.logLen == mid.logLen+1 {
			e := n.log.entries[post.logLen-1]
			vAssert(vAnd(e.Index == mid.lastIndex+1, vAnd(e.Term == post.term, e.EntryType == NoOpEntry)), "C07|C15.new-leader-noop-in-own-term")
			for i := 0; i < mid.logLen; i++ {
				vAssert(post.terms[i] == mid.terms[i], "C01|C07.new-leader-keeps-its-log")
			}
		}
		for _, id := range ids[1:] {
			if f, ok := r.followers[id]; ok {
				vAssert(vAnd(f.nextIndex == mid.lastIndex+1, f.matchIndex == 0), "C01|C04|C07.new-leader-resets-replication-state")
			}
		}
		vAssert(vAnd(len(r.operationManager.pendingReplicated) == 0, len(r.operationManager.pendingReadOnly) == 0), "C03.new-leader-starts-with-empty-tables")
		if recvFile != nil {
			vAssert(vAnd(r.snapshot == nil, vAnd(recvFile.closed, !recvFile.rec.visible)), "C11.new-leader-discards-partial-snapshot")
		}
		vAssert(post.term == roundTerm, "C02.leader-of-the-round-the-votes-belong-to")
	}
	// C15.elect (progress): the reply that completes a majority of voters' grants for the round's term elects
	if resp.VoteGranted && !prevote && mid.state == Candidate && mid.term == sent.Term && votes == votes0+1 {
		vAssert(vImplies(2*votes > nv, post.state == Leader), "C15.quorum-of-grants-elects-the-candidate")
	}
	if resp.VoteGranted && prevote && mid.state == PreCandidate && mid.term+1 == sent.Term && votes == votes0+1 {
		vAssert(vImplies(2*votes > nv, post.state == Candidate), "C15.quorum-of-prevotes-starts-the-candidacy")
	}
	if post.state == Candidate && mid.state == PreCandidate {
		vCover("prevote-won")
		vAssert(prevote, "C16.candidacy-only-after-prevote-quorum")
		vAssert(2*votes > nv, "C16|C09.prevote-needs-majority-of-voters")
		// the candidacy may start right here or be left to the election loop; if it starts here the term grows
		// by exactly one with a durable self-vote, and the real requests carry that term
		vAssert(vOr(post.term == mid.term, vAnd(post.term == mid.term+1, vAnd(post.votedFor == "n1", vAnd(post.durVote == "n1", post.durTerm == post.term)))), "C02|C08|C16.prevote-win-starts-at-most-one-candidacy")
		for i := range n.tr.sent {
			s := &n.tr.sent[i]
			if s.bg && s.kind == "RV" && !s.rv.Prevote {
				vAssert(vAnd(s.rv.Term == post.term, vAnd(post.term == mid.term+1, s.rv.CandidateID == "n1")), "C02.vote-request-carries-current-term")
				vAssert(vAnd(s.rv.LastLogIndex == post.lastIndex, s.rv.LastLogTerm == post.lastTerm), "C07.request-carries-real-last-entry")
			}
		}
	}
	if post.state != Leader && mid.state == Leader {
		vCover("leader-stepped-down")
		vAssert(post.term > mid.term, "C16.leader-steps-down-only-on-higher-term")
	}
	// the term moves only by adopting the reply's higher term, or by the candidacy of a prevote won just now
	wonPrevote := vAnd(vAnd(prevote, mid.state == PreCandidate), vAnd(post.state == Candidate, post.term == mid.term+1))
	vAssert(vImplies(post.term > mid.term, vOr(vAnd(resp.Term == post.term, post.state == Follower), wonPrevote)), "C08|C16.term-moves-only-by-higher-reply-or-won-prevote")
	vCoverIf(post.term > mid.term, "higher-term-seen")
}
