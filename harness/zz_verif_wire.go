package raft

import (
	"context"
	"errors"

	pb "github.com/jmsadair/raft/internal/protobuf"
	"google.golang.org/grpc"
)

// vh_Wire: the client/server glue of the bundled transport (transport.go): Send* on one real `transport`
// value reaches the handler registered on another through the real converters, the real connection table
// and the real gRPC service methods, and the handler's answer (or failure) comes back to the caller.
// Stub (part of the claim): the gRPC channel itself - protobuf marshalling, HTTP/2, the network - is the
// identity on *pb messages (vLoopClient hands the message to the peer's service method in-process).

type vLoopClient struct{ srv *transport }

func (c *vLoopClient) AppendEntries(ctx context.Context, in *pb.AppendEntriesRequest, opts ...grpc.CallOption) (*pb.AppendEntriesResponse, error) {
	return c.srv.AppendEntries(ctx, in)
}

func (c *vLoopClient) RequestVote(ctx context.Context, in *pb.RequestVoteRequest, opts ...grpc.CallOption) (*pb.RequestVoteResponse, error) {
	return c.srv.RequestVote(ctx, in)
}

func (c *vLoopClient) InstallSnapshot(ctx context.Context, in *pb.InstallSnapshotRequest, opts ...grpc.CallOption) (*pb.InstallSnapshotResponse, error) {
	return c.srv.InstallSnapshot(ctx, in)
}

func vh_Wire() {
	ids := []string{"", "n1", "nœud-2"}
	srv := &transport{}
	other := &transport{} // a second peer in the connection table: requests must not reach it
	calls, otherCalls := 0, 0
	fail := vNondetBool("handler-fails")
	var gotAE AppendEntriesRequest
	var gotRV RequestVoteRequest
	var gotIS InstallSnapshotRequest
	retAE := AppendEntriesResponse{Term: vNondetU64("r.term"), Success: vNondetBool("r.s"), Index: vNondetU64("r.i")}
	retRV := RequestVoteResponse{Term: vNondetU64("r.term"), VoteGranted: vNondetBool("r.g")}
	retIS := InstallSnapshotResponse{Term: vNondetU64("r.term"), BytesWritten: vNondetI64("r.bw")}
	kindSeen := -1
	srv.RegisterAppendEntriesHandler(func(q *AppendEntriesRequest, p *AppendEntriesResponse) error {
		calls++
		kindSeen = 0
		gotAE = *q
		if fail {
			return errors.New("refused")
		}
		*p = retAE
		return nil
	})
	srv.RegisterRequestVoteHandler(func(q *RequestVoteRequest, p *RequestVoteResponse) error {
		calls++
		kindSeen = 1
		gotRV = *q
		if fail {
			return errors.New("refused")
		}
		*p = retRV
		return nil
	})
	srv.RegsiterInstallSnapshotHandler(func(q *InstallSnapshotRequest, p *InstallSnapshotResponse) error {
		calls++
		kindSeen = 2
		gotIS = *q
		if fail {
			return errors.New("refused")
		}
		*p = retIS
		return nil
	})
	other.RegisterAppendEntriesHandler(func(q *AppendEntriesRequest, p *AppendEntriesResponse) error { otherCalls++; return nil })
	other.RegisterRequestVoteHandler(func(q *RequestVoteRequest, p *RequestVoteResponse) error { otherCalls++; return nil })
	other.RegsiterInstallSnapshotHandler(func(q *InstallSnapshotRequest, p *InstallSnapshotResponse) error { otherCalls++; return nil })

	cli := &transport{running: vNondetBool("running"), connManager: newConnectionManager(nil)}
	cli.connManager.clients["addr-srv"] = &vLoopClient{srv: srv}
	cli.connManager.clients["addr-other"] = &vLoopClient{srv: other}

	kind := vChoose("kind", 3)
	vTagInt("kind", kind)
	var err error
	switch kind {
	case 0:
		x := AppendEntriesRequest{LeaderID: vNondetStr("id", ids...), Term: vNondetU64("term"), LeaderCommit: vNondetU64("lc"), PrevLogIndex: vNondetU64("pi"), PrevLogTerm: vNondetU64("pt")}
		k := vChoose("nentries", vBound("entries")+1)
		for i := 0; i < k; i++ {
			e := &LogEntry{Index: vNondetU64("e.index"), Term: vNondetU64("e.term"), EntryType: LogEntryType(vNondetU32("e.type"))}
			if vNondetBool("e.hasdata") {
				e.Data = []byte{vNondetByte("e.b0")}
			}
			x.Entries = append(x.Entries, e)
		}
		var y AppendEntriesResponse
		y, err = cli.SendAppendEntries("addr-srv", x)
		if cli.running {
			vAssert(vAnd(calls == 1, kindSeen == 0), "C19.wire-append-entries-reaches-its-handler-once")
			g := gotAE
			vAssert(vAnd(vAnd(g.LeaderID == x.LeaderID, g.Term == x.Term), vAnd(g.LeaderCommit == x.LeaderCommit, vAnd(g.PrevLogIndex == x.PrevLogIndex, g.PrevLogTerm == x.PrevLogTerm))), "C19.wire-append-entries-request-arrives-equal")
			vAssert(len(g.Entries) == len(x.Entries), "C19.wire-append-entries-request-arrives-equal")
			for i := 0; i < len(x.Entries) && i < len(g.Entries); i++ {
				a, b := x.Entries[i], g.Entries[i]
				vAssert(vAnd(vAnd(a.Index == b.Index, a.Term == b.Term), vAnd(a.EntryType == b.EntryType, vSameBytes(a.Data, b.Data))), "C19.wire-append-entries-request-arrives-equal")
			}
			if !fail {
				vAssert(err == nil, "C19.wire-answer-comes-back")
				vAssert(vAnd(y.Term == retAE.Term, vAnd(y.Success == retAE.Success, y.Index == retAE.Index)), "C19.wire-append-entries-response-arrives-equal")
			}
		}
	case 1:
		x := RequestVoteRequest{CandidateID: vNondetStr("id", ids...), Term: vNondetU64("term"), LastLogIndex: vNondetU64("li"), LastLogTerm: vNondetU64("lt"), Prevote: vNondetBool("pv")}
		var y RequestVoteResponse
		y, err = cli.SendRequestVote("addr-srv", x)
		if cli.running {
			vAssert(vAnd(calls == 1, kindSeen == 1), "C19.wire-request-vote-reaches-its-handler-once")
			g := gotRV
			vAssert(vAnd(vAnd(g.CandidateID == x.CandidateID, g.Term == x.Term), vAnd(vAnd(g.LastLogIndex == x.LastLogIndex, g.LastLogTerm == x.LastLogTerm), g.Prevote == x.Prevote)), "C19.wire-request-vote-request-arrives-equal")
			if !fail {
				vAssert(err == nil, "C19.wire-answer-comes-back")
				vAssert(vAnd(y.Term == retRV.Term, y.VoteGranted == retRV.VoteGranted), "C19.wire-request-vote-response-arrives-equal")
			}
		}
	case 2:
		x := InstallSnapshotRequest{LeaderID: vNondetStr("id", ids...), Term: vNondetU64("term"), LastIncludedIndex: vNondetU64("li"), LastIncludedTerm: vNondetU64("lt"),
			Configuration: []byte{vNondetByte("c0")}, Bytes: vSymBytes("b", vChoose("blen", 3)), Offset: vNondetI64("off"), Done: vNondetBool("done")}
		var y InstallSnapshotResponse
		y, err = cli.SendInstallSnapshot("addr-srv", x)
		if cli.running {
			vAssert(vAnd(calls == 1, kindSeen == 2), "C19.wire-install-snapshot-reaches-its-handler-once")
			g := gotIS
			vAssert(vAnd(vAnd(g.LeaderID == x.LeaderID, g.Term == x.Term), vAnd(vAnd(g.LastIncludedIndex == x.LastIncludedIndex, g.LastIncludedTerm == x.LastIncludedTerm), vAnd(g.Offset == x.Offset, g.Done == x.Done))), "C19.wire-install-snapshot-request-arrives-equal")
			vAssert(vAnd(vSameBytes(x.Configuration, g.Configuration), vSameBytes(x.Bytes, g.Bytes)), "C19.wire-install-snapshot-request-arrives-equal")
			if !fail {
				vAssert(err == nil, "C19.wire-answer-comes-back")
				vAssert(vAnd(y.Term == retIS.Term, y.BytesWritten == retIS.BytesWritten), "C19.wire-install-snapshot-response-arrives-equal")
			}
		}
	}
	vAssert(otherCalls == 0, "C19.wire-request-goes-to-the-addressed-peer-only")
	if !cli.running {
		vAssert(vAnd(err != nil, calls == 0), "C19.wire-closed-transport-sends-nothing-and-says-so")
		vCover("closed")
	} else if fail {
		// a handler's refusal is reported to the caller as a failure, never as a (zero) answer
		vAssert(err != nil, "C19.wire-handler-failure-is-an-error-at-the-caller")
		vCover("refused")
	} else {
		vCover("answered")
	}
}
