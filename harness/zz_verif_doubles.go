package raft

// Doubles for the environment of a Raft node (transport, state machine, term/vote storage,
// snapshot storage) with ghost state the harness assertions read, plus the builder that
// constructs a node in an arbitrary state satisfying the node invariant (DESIGN.md §2.2).
// Everything here is ordinary Go: symgo executes it symbolically, `go test` natively on replay.

import (
	"errors"
	"io"
	"os"
	"path/filepath"
	"sync"
	"time"

	"github.com/jmsadair/raft/logging"
)

const (
	vElectionTimeout = time.Hour
	vLeaseDuration   = 10 * time.Minute
	vTimeMargin      = time.Minute
	vMaxIdx          = uint64(1) << 40
)

// ---------------------------------------------------------------------------
// transport double

type vSent struct {
	kind string // "AE", "RV", "IS"
	addr string
	bg   bool
	ae   AppendEntriesRequest
	rv   RequestVoteRequest
	is   InstallSnapshotRequest
}

type vTransport struct {
	mu      sync.Mutex
	addr    string
	configs []Configuration
	sent    []vSent
	onAE    func(addr string, req AppendEntriesRequest) (AppendEntriesResponse, error)
	onRV    func(addr string, req RequestVoteRequest) (RequestVoteResponse, error)
	onIS    func(addr string, req InstallSnapshotRequest) (InstallSnapshotResponse, error)
}

var errVBackground = errors.New("verif: send from an undriven goroutine fails")

func (t *vTransport) Run() error      { return nil }
func (t *vTransport) Shutdown() error { return nil }
func (t *vTransport) Address() string { return t.addr }

func (t *vTransport) record(s vSent) {
	t.mu.Lock()
	t.sent = append(t.sent, s)
	t.mu.Unlock()
}

func (t *vTransport) SendAppendEntries(address string, request AppendEntriesRequest) (AppendEntriesResponse, error) {
	bg := vInBackground()
	_ = makeProtoAppendEntriesRequest(request) // what the bundled transport does with it, lock released
	t.record(vSent{kind: "AE", addr: address, bg: bg, ae: request})
	if bg || t.onAE == nil {
		return AppendEntriesResponse{}, errVBackground
	}
	return t.onAE(address, request)
}

func (t *vTransport) SendRequestVote(address string, request RequestVoteRequest) (RequestVoteResponse, error) {
	bg := vInBackground()
	_ = makeProtoRequestVoteRequest(request)
	t.record(vSent{kind: "RV", addr: address, bg: bg, rv: request})
	if bg || t.onRV == nil {
		return RequestVoteResponse{}, errVBackground
	}
	return t.onRV(address, request)
}

func (t *vTransport) SendInstallSnapshot(address string, request InstallSnapshotRequest) (InstallSnapshotResponse, error) {
	bg := vInBackground()
	_ = makeProtoInstallSnapshotRequest(request)
	t.record(vSent{kind: "IS", addr: address, bg: bg, is: request})
	if bg || t.onIS == nil {
		return InstallSnapshotResponse{}, errVBackground
	}
	return t.onIS(address, request)
}

func (t *vTransport) RegisterAppendEntriesHandler(handler func(*AppendEntriesRequest, *AppendEntriesResponse) error) {
}
func (t *vTransport) RegisterRequestVoteHandler(handler func(*RequestVoteRequest, *RequestVoteResponse) error) {
}
func (t *vTransport) RegsiterInstallSnapshotHandler(handler func(*InstallSnapshotRequest, *InstallSnapshotResponse) error) {
}

// Configurations are encoded as a one-byte index into a table of clones (an opaque lossless codec).
func (t *vTransport) EncodeConfiguration(configuration *Configuration) ([]byte, error) {
	t.mu.Lock()
	defer t.mu.Unlock()
	t.configs = append(t.configs, configuration.Clone())
	return []byte{byte(len(t.configs) - 1)}, nil
}

func (t *vTransport) DecodeConfiguration(data []byte) (Configuration, error) {
	t.mu.Lock()
	defer t.mu.Unlock()
	if len(data) != 1 || int(data[0]) >= len(t.configs) {
		return Configuration{}, errors.New("verif: undecodable configuration")
	}
	return t.configs[int(data[0])].Clone(), nil
}

func (t *vTransport) sentCount(kind string, bg bool) int {
	n := 0
	for i := range t.sent {
		if t.sent[i].kind == kind && t.sent[i].bg == bg {
			n++
		}
	}
	return n
}

// ---------------------------------------------------------------------------
// term/vote storage double

type vState struct {
	term   uint64
	vote   string
	writes int
}

func (s *vState) SetState(term uint64, vote string) error {
	s.term, s.vote = term, vote
	s.writes++
	return nil
}

func (s *vState) State() (uint64, string, error) { return s.term, s.vote, nil }

// ---------------------------------------------------------------------------
// state machine double: records what was applied

type vApplied struct {
	index uint64
	term  uint64
	b0    byte
	blen  int
	typ   OperationType
}

type vFSM struct {
	applied  []vApplied
	through  uint64 // index of the last replicated operation reflected in the state
	restores int
	need     bool
	preApply func(op *Operation) // runs before the operation takes effect in the state machine
	onApply  func(op *Operation)
	order    bool // set when an operation arrived that is not the successor of what the state reflects
	onSnap   func()
	onRest   func()
}

func (f *vFSM) Apply(operation *Operation) interface{} {
	if f.preApply != nil {
		f.preApply(operation)
	}
	if operation.OperationType == Replicated && operation.LogIndex <= f.through {
		f.order = true // applied twice (or out of order): the state already reflects this index
	}
	a := vApplied{index: operation.LogIndex, term: operation.LogTerm, blen: len(operation.Bytes), typ: operation.OperationType}
	if len(operation.Bytes) > 0 {
		a.b0 = operation.Bytes[0]
	}
	f.applied = append(f.applied, a)
	if operation.OperationType == Replicated {
		f.through = operation.LogIndex
	}
	if f.onApply != nil {
		f.onApply(operation)
	}
	return operation.LogIndex
}

// Snapshot writes an 8-byte payload naming the applied prefix it reflects.
func (f *vFSM) Snapshot(w io.Writer) error {
	if f.onSnap != nil {
		f.onSnap()
	}
	var b [8]byte
	t := f.through
	for i := 0; i < 8; i++ {
		b[i] = byte(t >> (8 * uint(i)))
	}
	_, err := w.Write(b[:])
	return err
}

func (f *vFSM) Restore(r io.Reader) error {
	var b [8]byte
	n, _ := io.ReadFull(r, b[:])
	if n == 8 {
		var t uint64
		for i := 0; i < 8; i++ {
			t |= uint64(b[i]) << (8 * uint(i))
		}
		f.through = t
	}
	f.restores++
	if f.onRest != nil {
		f.onRest()
	}
	return nil
}

func (f *vFSM) NeedSnapshot(logSize int) bool { return f.need }

// ---------------------------------------------------------------------------
// locker used by the node's condition variables: Cond.Wait becomes a yield point that
// runs the harness hook on the waiting goroutine and returns immediately.

type vLocker struct {
	mu   *sync.Mutex
	cond *sync.Cond
	name string
	hook func(which string)
}

func (l *vLocker) Lock() { l.mu.Lock() }
func (l *vLocker) Unlock() {
	// Only sync.Cond.Wait calls this (the node itself locks r.mu directly).
	if l.hook != nil {
		l.hook(l.name)
	}
	if l.cond != nil {
		l.cond.Broadcast() // wakes the waiter that is already registered => Wait returns at once
	}
	l.mu.Unlock()
}

// ---------------------------------------------------------------------------
// node builder

type vNodeSpec struct {
	name     string
	self     string
	ids      []string // universe of node ids (members are chosen among them)
	maxLog   int      // entries after the placeholder
	states   []State  // allowed states (case split)
	members  string   // "none": empty configuration; "all-voters"; "sole-voter": self votes, the others are non-voting members; "any": every member/voter subset containing self or not
	dataLen  int      // bytes per entry payload
	anyTypes bool     // entry types symbolic over {NoOp, Operation}; otherwise all Operation
	snap     bool     // when the log has a compacted prefix, a visible snapshot labelled with it exists (SnapInv)
}

type vNode struct {
	r     *Raft
	tr    *vTransport
	st    *vState
	fsm   *vFSM
	snaps *vSnapStore
	log   *persistentLog
	spec  vNodeSpec
	hook  func(which string)
}

func vNewLogFile() (*os.File, string) {
	if vSymbolic() {
		return vDummyFile(), "logdir"
	}
	// natively: a real log.bin in a fresh directory, as persistentLog.rename expects
	dir, err := os.MkdirTemp(vNativeDir(), "log-")
	if err != nil {
		panic(err)
	}
	f, err := os.OpenFile(filepath.Join(dir, "log.bin"), os.O_RDWR|os.O_CREATE, 0o666)
	if err != nil {
		panic(err)
	}
	return f, dir
}

// vBuildLog builds a persistentLog with n entries after a placeholder (base, baseTerm).
// Symbolically the struct is built directly (B1: file calls are inert); natively the same log is
// produced through the real API so that it also exists on disk.
func vBuildLog(name string, n int, base, baseTerm uint64, dataLen int, anyTypes bool) *persistentLog {
	entries := make([]*LogEntry, 0, n+1)
	entries = append(entries, &LogEntry{Index: base, Term: baseTerm})
	prev := baseTerm
	for i := 1; i <= n; i++ {
		t := vNondetU64(name + ".term")
		vAssume(t >= prev)
		vAssume(t >= 1)
		prev = t
		e := &LogEntry{Index: base + uint64(i), Term: t, EntryType: OperationEntry, Offset: int64(i) * 16}
		if anyTypes && vNondetBool(name+".noop") {
			e.EntryType = NoOpEntry
		}
		if dataLen > 0 {
			e.Data = make([]byte, dataLen)
			for k := range e.Data {
				e.Data[k] = vNondetByte(name + ".data")
			}
		}
		entries = append(entries, e)
	}
	if vSymbolic() {
		f, dir := vNewLogFile()
		return &persistentLog{entries: entries, file: f, logDir: dir}
	}
	dir, err := os.MkdirTemp(vNativeDir(), "node-")
	if err != nil {
		panic(err)
	}
	lg, err := NewLog(dir)
	if err != nil {
		panic(err)
	}
	l := lg.(*persistentLog)
	if err := l.Open(); err != nil {
		panic(err)
	}
	if err := l.Replay(); err != nil {
		panic(err)
	}
	if base != 0 || baseTerm != 0 {
		if err := l.DiscardEntries(base, baseTerm); err != nil {
			panic(err)
		}
	}
	if err := l.AppendEntries(entries[1:]); err != nil {
		panic(err)
	}
	return l
}

// vSyncLogToDisk rewrites the on-disk records after a harness edited entries in memory (natively only;
// symbolically memory is the durable content).
func vSyncLogToDisk(l *persistentLog) {
	if vSymbolic() || len(l.entries) < 2 {
		return
	}
	es := append([]*LogEntry{}, l.entries[1:]...)
	if err := l.Truncate(es[0].Index); err != nil {
		panic(err)
	}
	if err := l.AppendEntries(es); err != nil {
		panic(err)
	}
}

func vBuildNode(spec vNodeSpec) *vNode {
	n := &vNode{spec: spec}
	name := spec.name
	logLen := vChoose(name+".loglen", spec.maxLog+1)
	base := vNondetU64(name + ".base")
	baseTerm := vNondetU64(name + ".baseTerm")
	vAssume(base < vMaxIdx)
	vAssume(vImplies(base == 0, baseTerm == 0))
	n.log = vBuildLog(name, logLen, base, baseTerm, spec.dataLen, spec.anyTypes)
	n.tr = &vTransport{addr: "addr-" + spec.self}
	n.st = &vState{}
	n.fsm = &vFSM{}
	n.snaps = &vSnapStore{}

	logger, _ := logging.NewLogger()
	r := &Raft{
		id:              spec.self,
		address:         n.tr.addr,
		logger:          logger,
		log:             n.log,
		stateStorage:    n.st,
		snapshotStorage: n.snaps,
		transport:       n.tr,
		fsm:             n.fsm,
	}
	r.options.electionTimeout = vElectionTimeout
	r.options.heartbeatInterval = time.Second
	r.options.leaseDuration = vLeaseDuration
	r.operationManager = newOperationManager(r.options.leaseDuration)
	n.r = r

	mkCond := func(cname string) *sync.Cond {
		l := &vLocker{mu: &r.mu, name: cname}
		l.hook = func(which string) {
			if n.hook != nil {
				n.hook(which)
			}
		}
		c := sync.NewCond(l)
		l.cond = c
		return c
	}
	r.applyCond = mkCond("apply")
	r.commitCond = mkCond("commit")
	r.readOnlyCond = mkCond("readOnly")
	r.electionCond = mkCond("election")
	r.snapshotCond = mkCond("snapshot")

	// scalar protocol state
	r.lastIncludedIndex = base
	r.lastIncludedTerm = baseTerm
	last := base + uint64(logLen)
	r.commitIndex = vNondetU64(name + ".commit")
	r.lastApplied = vNondetU64(name + ".applied")
	vAssume(r.lastApplied >= base)
	vAssume(r.lastApplied <= r.commitIndex)
	vAssume(r.commitIndex <= last)
	r.currentTerm = vNondetU64(name + ".term0")
	vAssume(r.currentTerm < vMaxIdx)
	r.votedFor = vNondetStr(name+".votedFor", append([]string{""}, spec.ids...)...)
	r.leaderID = ""
	si := vChoose(name+".state", len(spec.states))
	r.state = spec.states[si]
	vTagInt(name+".state", int(r.state))

	// durable pair agrees with memory whenever the lock is free (N3)
	n.st.term, n.st.vote = r.currentTerm, r.votedFor

	// configuration
	switch spec.members {
	case "none":
		r.configuration = &Configuration{}
	default:
		c := &Configuration{Members: map[string]string{}, IsVoter: map[string]bool{}, Index: vNondetU64(name + ".cfgIndex")}
		for _, id := range spec.ids {
			member := true
			voter := true
			if spec.members == "any" {
				member = vNondetBool(name + ".member." + id)
				if member {
					voter = vNondetBool(name + ".voter." + id)
				}
			}
			if spec.members == "sole-voter" {
				voter = id == spec.self // the others are non-voting members
			}
			if member {
				c.Members[id] = "addr-" + id
				c.IsVoter[id] = voter
			}
		}
		vAssume(c.Index <= last)
		r.configuration = c
		cc := c.Clone()
		r.committedConfiguration = &cc
	}
	r.followers = make(map[string]*follower)
	for id := range r.configuration.Members {
		r.followers[id] = &follower{nextIndex: last + 1} // N7: matchIndex < nextIndex <= last+1
	}
	if spec.snap && base > 0 {
		vTag(name+".compacted", "true")
		n.fsm.through = base
		cfgData, _ := n.tr.EncodeConfiguration(r.configuration)
		f, _ := n.snaps.NewSnapshotFile(base, baseTerm, cfgData)
		_ = n.fsm.Snapshot(f)
		_ = f.Close()
	}
	return n
}

// vSetContact positions lastContact so that it is unambiguously older or younger than the election timeout.
func vSetContact(r *Raft, name string) (recent bool) {
	gap := vNondetI64(name + ".contactGap")
	vAssume(gap >= 0)
	vAssume(gap < int64(1000*time.Hour))
	recent = gap < int64(vElectionTimeout)
	vAssume(vOr(gap < int64(vElectionTimeout-vTimeMargin), gap > int64(vElectionTimeout+vTimeMargin)))
	r.lastContact = vTimeAgo(time.Duration(gap))
	return recent
}

// vSetLease positions the lease expiration unambiguously in the past or in the future.
func vSetLease(r *Raft, name string) (valid bool) {
	ahead := vNondetI64(name + ".leaseAhead") // expiration - now
	vAssume(ahead > -int64(1000*time.Hour))
	vAssume(ahead < int64(1000*time.Hour))
	vAssume(vOr(ahead < -int64(vTimeMargin), ahead > int64(vTimeMargin)))
	valid = ahead > 0
	r.operationManager.leaderLease.expiration = vTimeAgo(time.Duration(-ahead))
	return valid
}

// ---------------------------------------------------------------------------
// two-state snapshot of the scalar node state

type vSnap struct {
	state             State
	term              uint64
	votedFor          string
	leaderID          string
	commit            uint64
	applied           uint64
	lastIncludedIndex uint64
	lastIncludedTerm  uint64
	lastIndex         uint64
	lastTerm          uint64
	logLen            int
	firstIndex        uint64
	terms             []uint64
	durTerm           uint64
	durVote           string
	lastContact       time.Time
	writes            int
}

func vSnapshotNode(n *vNode) vSnap {
	r := n.r
	s := vSnap{
		state: r.state, term: r.currentTerm, votedFor: r.votedFor, leaderID: r.leaderID,
		commit: r.commitIndex, applied: r.lastApplied,
		lastIncludedIndex: r.lastIncludedIndex, lastIncludedTerm: r.lastIncludedTerm,
		durTerm: n.st.term, durVote: n.st.vote, lastContact: r.lastContact, writes: n.st.writes,
	}
	es := n.log.entries
	s.logLen = len(es)
	s.firstIndex = es[0].Index
	s.lastIndex = es[len(es)-1].Index
	s.lastTerm = es[len(es)-1].Term
	s.terms = make([]uint64, len(es))
	for i := range es {
		s.terms[i] = es[i].Term
	}
	return s
}

// ---------------------------------------------------------------------------
// snapshot storage double (in-memory; mirrors persistentSnapshotStorage: "most recent" = created last
// among the snapshots whose writer was closed)

type vSnapRec struct {
	meta      SnapshotMetadata
	data      []byte
	visible   bool
	discarded bool
}

type vSnapStore struct {
	recs  []*vSnapRec
	opens int
	onVisible func(rec *vSnapRec) // runs when a writer is closed, i.e. at the instant a snapshot becomes visible
	big   *vBigSnapFile // if set, SnapshotFile hands out this reader (symbolic size) for the newest snapshot
}

type vSnapFile struct {
	store   *vSnapStore
	rec     *vSnapRec
	writing bool
	closed  bool
	pos     int64
}

func (s *vSnapStore) NewSnapshotFile(lastIncludedIndex uint64, lastIncludedTerm uint64, configuration []byte) (SnapshotFile, error) {
	rec := &vSnapRec{meta: SnapshotMetadata{LastIncludedIndex: lastIncludedIndex, LastIncludedTerm: lastIncludedTerm, Configuration: configuration}}
	s.recs = append(s.recs, rec)
	return &vSnapFile{store: s, rec: rec, writing: true}, nil
}

func (s *vSnapStore) latest() *vSnapRec {
	for i := len(s.recs) - 1; i >= 0; i-- {
		if s.recs[i].visible {
			return s.recs[i]
		}
	}
	return nil
}

func (s *vSnapStore) SnapshotFile() (SnapshotFile, error) {
	rec := s.latest()
	if rec == nil {
		return nil, nil
	}
	s.opens++
	if s.big != nil {
		return s.big, nil
	}
	return &vSnapFile{store: s, rec: rec}, nil
}

func (f *vSnapFile) Read(p []byte) (int, error) {
	if f.closed {
		return 0, os.ErrClosed
	}
	if f.pos >= int64(len(f.rec.data)) {
		return 0, io.EOF
	}
	n := copy(p, f.rec.data[f.pos:])
	f.pos += int64(n)
	return n, nil
}

func (f *vSnapFile) Write(p []byte) (int, error) {
	if f.closed || !f.writing {
		return 0, os.ErrClosed
	}
	f.rec.data = append(f.rec.data[:f.pos], p...)
	f.pos += int64(len(p))
	return len(p), nil
}

func (f *vSnapFile) Seek(offset int64, whence int) (int64, error) {
	if f.closed {
		return 0, os.ErrClosed
	}
	switch whence {
	case io.SeekStart:
		f.pos = offset
	case io.SeekCurrent:
		f.pos += offset
	case io.SeekEnd:
		f.pos = int64(len(f.rec.data)) + offset
	}
	if f.pos < 0 {
		f.pos = 0
		return 0, errors.New("verif: negative seek")
	}
	return f.pos, nil
}

func (f *vSnapFile) Close() error {
	if f.closed {
		return nil
	}
	f.closed = true
	if f.writing {
		f.rec.visible = true
		if f.store.onVisible != nil {
			f.store.onVisible(f.rec)
		}
	}
	return nil
}

func (f *vSnapFile) Discard() error {
	if f.closed || !f.writing {
		return nil
	}
	f.closed = true
	f.rec.discarded = true
	return nil
}

func (f *vSnapFile) Metadata() SnapshotMetadata { return f.rec.meta }

func (s *vSnapStore) visibleCount() int {
	n := 0
	for _, r := range s.recs {
		if r.visible {
			n++
		}
	}
	return n
}

// vBigSnapFile is a read-only snapshot file of symbolic size whose content is irrelevant (zeros).
// The engine summarises io.Copy from it (methods vRemaining/vSkip); natively it is an ordinary reader.
type vBigSnapFile struct {
	meta   SnapshotMetadata
	size   int64
	pos    int64
	closed bool
}

func (f *vBigSnapFile) vRemaining() int64 { return f.size - f.pos }
func (f *vBigSnapFile) vSkip(n int64)     { f.pos += n }
func (f *vBigSnapFile) Read(p []byte) (int, error) {
	if f.pos >= f.size {
		return 0, io.EOF
	}
	n := int64(len(p))
	if n > f.size-f.pos {
		n = f.size - f.pos
	}
	for i := int64(0); i < n; i++ {
		p[i] = 0
	}
	f.pos += n
	return int(n), nil
}
func (f *vBigSnapFile) Write(p []byte) (int, error) { return 0, os.ErrClosed }
func (f *vBigSnapFile) Seek(offset int64, whence int) (int64, error) {
	switch whence {
	case io.SeekStart:
		f.pos = offset
	case io.SeekCurrent:
		f.pos += offset
	case io.SeekEnd:
		f.pos = f.size + offset
	}
	return f.pos, nil
}
func (f *vBigSnapFile) Close() error               { f.closed = true; return nil }
func (f *vBigSnapFile) Discard() error             { return nil }
func (f *vBigSnapFile) Metadata() SnapshotMetadata { return f.meta }

// vCheckInv asserts the node invariant on a post-state (DESIGN.md §2.2, the conjuncts that every segment
// must re-establish): log indices contiguous, terms non-decreasing, lastApplied <= commitIndex (<= lastIndex
// when the step did not have to drop committed entries), the log starts at the snapshot boundary, the durable
// (term, vote) pair equals memory, a leader's matchIndex never points beyond its log.
func vCheckInv(n *vNode, commitWithinLog bool, startsAtBoundary bool, termsOrdered ...bool) {
	r := n.r
	es := n.log.entries
	vAssert(len(es) >= 1, "INV.log-has-placeholder")
	if len(es) == 0 {
		return
	}
	for i := 1; i < len(es); i++ {
		vAssert(es[i].Index == es[i-1].Index+1, "INV.log-indices-contiguous")
		if len(termsOrdered) == 0 || termsOrdered[0] {
			vAssert(es[i].Term >= es[i-1].Term, "INV.log-terms-non-decreasing")
		}
	}
	vAssert(r.lastApplied <= r.commitIndex, "INV.applied<=commit")
	if commitWithinLog {
		vAssert(r.commitIndex <= es[len(es)-1].Index, "INV.commit<=last")
	}
	if startsAtBoundary {
		vAssert(vAnd(es[0].Index == r.lastIncludedIndex, es[0].Term == r.lastIncludedTerm), "INV.log-starts-at-snapshot-boundary")
	}
	vAssert(vAnd(n.st.term == r.currentTerm, n.st.vote == r.votedFor), "INV.durable-term-and-vote-equal-memory")
	if r.state == Leader {
		last := es[len(es)-1].Index
		for id := range r.configuration.Members {
			if f, ok := r.followers[id]; ok {
				vAssert(f.matchIndex <= last, "INV.matchIndex<=last")
			}
		}
	}
}
