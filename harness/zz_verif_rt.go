package raft

// Harness runtime: native bodies of the intrinsics that the symbolic engine (symgo) intercepts.
// This file is injected into package raft through an overlay; it is never written into /repo.
// Natively the intrinsics replay one solver model (VERIF_REPLAY=<file.json>).

import (
	"encoding/json"
	"fmt"
	"os"
	"runtime"
	"strconv"
	"strings"
	"sync"
	"time"
)

type vReplayFile struct {
	Harness string            `json:"harness"`
	Bounds  map[string]int    `json:"bounds"`
	Model   map[string]any    `json:"model"`
	Label   string            `json:"label"`
	Tags    map[string]string `json:"tags"`
	Image   any               `json:"image"`
}

type vAssumeFalse struct{}

var (
	vRT struct {
		mu       sync.Mutex
		file     vReplayFile
		occ      map[string]int
		failed   []string
		covers   []string
		mainGID  string
		baseG    int
		tmpDir   string
		panicLbl string
		fatalLbl string
	}
)

func vLoadReplay(path string) error {
	b, err := os.ReadFile(path)
	if err != nil {
		return err
	}
	vRT.file = vReplayFile{}
	if err := json.Unmarshal(b, &vRT.file); err != nil {
		return err
	}
	vRT.occ = map[string]int{}
	vRT.failed = nil
	vRT.mainGID = vGID()
	vRT.baseG = runtime.NumGoroutine()
	vRT.panicLbl = "C18.nopanic"
	vRT.fatalLbl = "C14|C18.nofatal"
	return nil
}

func vGID() string {
	var buf [64]byte
	n := runtime.Stack(buf[:], false)
	f := strings.Fields(string(buf[:n]))
	if len(f) >= 2 {
		return f[1]
	}
	return "?"
}

func vName(n string) string {
	vRT.mu.Lock()
	defer vRT.mu.Unlock()
	k := vRT.occ[n]
	vRT.occ[n] = k + 1
	if k == 0 {
		return n
	}
	return fmt.Sprintf("%s#%d", n, k)
}

func vModelU64(name string) uint64 {
	v, ok := vRT.file.Model[vName(name)]
	if !ok {
		return 0
	}
	switch x := v.(type) {
	case string:
		u, _ := strconv.ParseUint(x, 10, 64)
		return u
	case float64:
		return uint64(x)
	case bool:
		if x {
			return 1
		}
	}
	return 0
}

func vNondetU64(name string) uint64 { return vModelU64(name) }
func vNondetI64(name string) int64  { return int64(vModelU64(name)) }
func vNondetInt(name string) int    { return int(vModelU64(name)) }
func vNondetU32(name string) uint32 { return uint32(vModelU64(name)) }
func vNondetByte(name string) byte  { return byte(vModelU64(name)) }
func vNondetBool(name string) bool {
	v, ok := vRT.file.Model[vName(name)]
	if !ok {
		return false
	}
	switch x := v.(type) {
	case bool:
		return x
	case string:
		return x == "1" || x == "true"
	}
	return false
}

func vNondetStr(name string, universe ...string) string {
	v, ok := vRT.file.Model[vName(name)]
	if !ok {
		return universe[0]
	}
	s, _ := v.(string)
	return s
}

func vChoose(name string, n int) int {
	k := int(vModelU64(name))
	if k < 0 || k >= n {
		vWhere("vChoose " + name)
		panic(vAssumeFalse{})
	}
	return k
}

func vAssume(c bool) {
	if !c {
		vWhere("vAssume")
		panic(vAssumeFalse{})
	}
}

func vWhere(what string) {
	if os.Getenv("VERIF_REPLAY_VERBOSE") != "" {
		_, file, line, _ := runtime.Caller(2)
		fmt.Printf("VERIF-DEBUG %s false at %s:%d\n", what, file, line)
	}
}

func vAssert(c bool, label string) {
	if !c {
		vRT.mu.Lock()
		vRT.failed = append(vRT.failed, label)
		vRT.mu.Unlock()
		fmt.Printf("VERIF-ASSERT-FAIL %s\n", label)
	}
}

// engine-only observations: no-ops natively
func vAssertEngine(c bool, label string, detail string) {}
func vFileDirty(path string) bool                       { return false }
func vRenamedUnsynced() bool                            { return false }

func vCover(label string)           { vRT.covers = append(vRT.covers, label) }
func vCoverIf(c bool, label string) {
	if c {
		vCover(label)
	}
}
func vTag(name, val string)          {}
func vTagInt(name string, v int)     {}
func vTagBool(name string, v bool)   {}
func vAnd(a, b bool) bool            { return a && b }
func vOr(a, b bool) bool             { return a || b }
func vNot(a bool) bool               { return !a }
func vImplies(a, b bool) bool        { return !a || b }
func vIteU64(c bool, a, b uint64) uint64 {
	if c {
		return a
	}
	return b
}

func vBound(name string) int {
	v, ok := vRT.file.Bounds[name]
	if !ok {
		panic("vBound: missing bound " + name)
	}
	return v
}

// vConcretize returns x, which the engine forces to a concrete value in [0, n) by forking.
func vConcretize(x uint64, n int) int {
	if x >= uint64(n) {
		vWhere("vConcretize")
		panic(vAssumeFalse{})
	}
	return int(x)
}

func vOnPanic(label string) { vRT.panicLbl = label }
func vOnFatal(label string) { vRT.fatalLbl = label }
func vSymbolic() bool       { return false }
func vInBackground() bool   { return vGID() != vRT.mainGID }
func vNote(s string)        {}

// vDrain waits until every goroutine spawned by the code under test has finished.
// (Spawned senders talk to vTransport, which fails their sends in background mode.)
func vDrain() {
	deadline := time.Now().Add(3 * time.Second)
	for runtime.NumGoroutine() > vRT.baseG && time.Now().Before(deadline) {
		time.Sleep(200 * time.Microsecond)
	}
}

func vSpawnCount() int { return 0 }

func vTimeAgo(d time.Duration) time.Time { return time.Now().Add(-d) }

func vEndPath() { panic(vAssumeFalse{}) }

func vHeld(mu *sync.Mutex) bool {
	if mu.TryLock() {
		mu.Unlock()
		return false
	}
	return true
}

func vSignals(c *sync.Cond) int { return -1 }
func vTrackLocks(on bool)        {}

func vNativeDir() string {
	if vRT.tmpDir == "" {
		d, err := os.MkdirTemp("", "verif-replay-")
		if err != nil {
			panic(err)
		}
		vRT.tmpDir = d
	}
	return vRT.tmpDir
}

// vDummyFile returns a real scratch file natively (the engine returns an inert *os.File).
func vDummyFile() *os.File {
	f, err := os.CreateTemp(vNativeDir(), "file-")
	if err != nil {
		panic(err)
	}
	return f
}

func vCleanupNative() {
	if vRT.tmpDir != "" {
		os.RemoveAll(vRT.tmpDir)
		vRT.tmpDir = ""
	}
}
