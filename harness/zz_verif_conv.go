package raft

// vh_Conv: round trips of the six RPC message converters over symbolic field values (C19.conv),
// plus the storage framing converters the codec stub allows (entry <-> pb.LogEntry fields).
// Outside: protobuf wire bytes, gRPC, JSON (trusted libraries).

func vSameBytes(a, b []byte) bool {
	if len(a) != len(b) {
		return false
	}
	ok := true
	for i := range a {
		ok = vAnd(ok, a[i] == b[i])
	}
	return ok
}

func vh_Conv() {
	ids := []string{"", "n1", "nœud-2", "节点3"}
	kind := vChoose("kind", 7)
	vTagInt("kind", kind)
	switch kind {
	case 0:
		x := RequestVoteRequest{CandidateID: vNondetStr("id", ids...), Term: vNondetU64("term"), LastLogIndex: vNondetU64("li"), LastLogTerm: vNondetU64("lt"), Prevote: vNondetBool("pv")}
		y := makeRequestVoteRequest(makeProtoRequestVoteRequest(x))
		vAssert(vAnd(vAnd(y.CandidateID == x.CandidateID, y.Term == x.Term), vAnd(vAnd(y.LastLogIndex == x.LastLogIndex, y.LastLogTerm == x.LastLogTerm), y.Prevote == x.Prevote)), "C19.request-vote-request-roundtrip")
	case 1:
		x := RequestVoteResponse{Term: vNondetU64("term"), VoteGranted: vNondetBool("g")}
		y := makeRequestVoteResponse(makeProtoRequestVoteResponse(x))
		vAssert(vAnd(y.Term == x.Term, y.VoteGranted == x.VoteGranted), "C19.request-vote-response-roundtrip")
	case 2:
		x := AppendEntriesRequest{LeaderID: vNondetStr("id", ids...), Term: vNondetU64("term"), LeaderCommit: vNondetU64("lc"), PrevLogIndex: vNondetU64("pi"), PrevLogTerm: vNondetU64("pt")}
		k := vChoose("nentries", vBound("entries")+1)
		for i := 0; i < k; i++ {
			e := &LogEntry{Index: vNondetU64("e.index"), Term: vNondetU64("e.term"), EntryType: LogEntryType(vNondetU32("e.type"))}
			switch vChoose("e.datalen", 3) {
			case 1:
				e.Data = []byte{}
			case 2:
				e.Data = []byte{vNondetByte("e.b0"), vNondetByte("e.b1")}
			}
			x.Entries = append(x.Entries, e)
		}
		y := makeAppendEntriesRequest(makeProtoAppendEntriesRequest(x))
		vAssert(vAnd(vAnd(y.LeaderID == x.LeaderID, y.Term == x.Term), vAnd(y.LeaderCommit == x.LeaderCommit, vAnd(y.PrevLogIndex == x.PrevLogIndex, y.PrevLogTerm == x.PrevLogTerm))), "C19.append-entries-request-roundtrip")
		vAssert(len(y.Entries) == len(x.Entries), "C19.append-entries-request-entry-count")
		for i := 0; i < len(x.Entries) && i < len(y.Entries); i++ {
			a, b := x.Entries[i], y.Entries[i]
			vAssert(vAnd(vAnd(a.Index == b.Index, a.Term == b.Term), a.EntryType == b.EntryType), "C19.entry-fields-roundtrip-for-every-type-value")
			vAssert(vSameBytes(a.Data, b.Data), "C19.entry-data-roundtrip")
		}
		vCoverIf(k > 0, "entries")
	case 3:
		x := AppendEntriesResponse{Term: vNondetU64("term"), Success: vNondetBool("s"), Index: vNondetU64("i")}
		y := makeAppendEntriesResponse(makeProtoAppendEntriesResponse(x))
		vAssert(vAnd(y.Term == x.Term, vAnd(y.Success == x.Success, y.Index == x.Index)), "C19.append-entries-response-roundtrip")
	case 4:
		x := InstallSnapshotRequest{LeaderID: vNondetStr("id", ids...), Term: vNondetU64("term"), LastIncludedIndex: vNondetU64("li"), LastIncludedTerm: vNondetU64("lt"),
			Configuration: []byte{vNondetByte("c0")}, Bytes: vSymBytes("b", vChoose("blen", 3)), Offset: vNondetI64("off"), Done: vNondetBool("done")}
		y := makeInstallSnapshotRequest(makeProtoInstallSnapshotRequest(x))
		vAssert(vAnd(vAnd(y.LeaderID == x.LeaderID, y.Term == x.Term), vAnd(vAnd(y.LastIncludedIndex == x.LastIncludedIndex, y.LastIncludedTerm == x.LastIncludedTerm), vAnd(y.Offset == x.Offset, y.Done == x.Done))), "C19.install-snapshot-request-roundtrip")
		vAssert(vAnd(vSameBytes(x.Configuration, y.Configuration), vSameBytes(x.Bytes, y.Bytes)), "C19.install-snapshot-request-payload-roundtrip")
	case 6:
		// the configuration codec used by the bundled transport (over the opaque protobuf codec)
		c := Configuration{Index: vNondetU64("cfg.index"), Members: map[string]string{"n1": "addr-1"}, IsVoter: map[string]bool{"n1": vNondetBool("cfg.v1")}}
		if vNondetBool("cfg.m2") {
			c.Members["nœud-2"] = "addr-2"
			c.IsVoter["nœud-2"] = vNondetBool("cfg.v2")
		}
		data, err := encodeConfiguration(&c)
		vAssert(err == nil, "C19.configuration-encodes")
		d, err := decodeConfiguration(data)
		vAssert(err == nil, "C19.configuration-decodes")
		vAssert(vAnd(d.Index == c.Index, vAnd(len(d.Members) == len(c.Members), len(d.IsVoter) == len(c.IsVoter))), "C09|C19.configuration-roundtrip")
		for id, addr := range c.Members {
			vAssert(vAnd(d.Members[id] == addr, d.IsVoter[id] == c.IsVoter[id]), "C09|C19.configuration-roundtrip")
		}
		cl := c.Clone()
		vAssert(vAnd(cl.Index == c.Index, len(cl.Members) == len(c.Members)), "C09|C19.configuration-clone")
		for id, addr := range c.Members {
			vAssert(vAnd(cl.Members[id] == addr, cl.IsVoter[id] == c.IsVoter[id]), "C09|C19.configuration-clone")
		}
	case 5:
		x := InstallSnapshotResponse{Term: vNondetU64("term"), BytesWritten: vNondetI64("bw")}
		y := makeInstallSnapshotResponse(makeProtoInstallSnapshotResponse(x))
		vAssert(vAnd(y.Term == x.Term, y.BytesWritten == x.BytesWritten), "C19.install-snapshot-response-roundtrip")
	}
	vCover("roundtrip")
}
