package raft

// vh_CL: one wake-up of commitLoop from an arbitrary leader/non-leader state (L1).
// vh_Quorum: hasQuorum against a reference for every configuration over the id universe.

// vRefVoters counts voters of c by an independent loop over the id universe.
// vRefIsVoter is the reference for "id is a voting member of c" (the library's own isVoter is under test).
func vRefIsVoter(c *Configuration, id string) bool {
	_, ok := c.Members[id]
	return ok && c.IsVoter[id]
}

func vRefIsMember(c *Configuration, id string) bool {
	_, ok := c.Members[id]
	return ok
}

func vRefVoters(c *Configuration, ids []string) int {
	nv := 0
	for _, id := range ids {
		if _, ok := c.Members[id]; ok && c.IsVoter[id] {
			nv++
		}
	}
	return nv
}

// vRunLoopOnce runs one iteration of a background loop: the first Cond.Wait returns at once, the
// second snapshots nothing and shuts the loop down by setting state=Shutdown after saving the state.
type vLoopCtl struct {
	waits     int
	postState State
	after     func()
}

func vLoopHook(n *vNode, ctl *vLoopCtl, which string) func(string) {
	return func(w string) {
		if w != which {
			return
		}
		ctl.waits++
		if ctl.waits == 2 {
			ctl.postState = n.r.state
			if ctl.after != nil {
				ctl.after()
			}
			n.r.state = Shutdown
		}
	}
}

func vh_CL() {
	ids := []string{"n1", "n2", "n3", "n4"}
	n := vBuildNode(vNodeSpec{name: "l", self: "n1", ids: ids, maxLog: vBound("log"),
		states: []State{Leader, Follower, Candidate}, members: "any"})
	r := n.r
	// leader bookkeeping: arbitrary match indices (N7: matchIndex <= LastIndex)
	last := n.log.LastIndex()
	for _, id := range ids {
		if f, ok := r.followers[id]; ok {
			f.matchIndex = vNondetU64("l.match." + id)
			vAssume(f.matchIndex <= last)
			f.nextIndex = f.matchIndex + 1
		}
	}
	// entry terms never exceed the current term (N1)
	vAssume(n.log.LastTerm() <= r.currentTerm)
	pre := vSnapshotNode(n)
	ctl := &vLoopCtl{}
	var post vSnap
	ctl.after = func() { post = vSnapshotNode(n) }
	n.hook = vLoopHook(n, ctl, "commit")
	r.wg.Add(1)
	r.commitLoop()
	vDrain()
	vAssert(ctl.waits == 2, "C18.commit-loop-returns-to-wait")
	vAssert(!vHeld(&r.mu), "C18|C20.lock-released")

	vAssert(post.commit >= pre.commit, "C01|C11.commit-monotone")
	vAssert(post.commit <= pre.lastIndex, "C01|INV.commit<=last")
	vAssert(vAnd(post.logLen == pre.logLen, post.term == pre.term), "C01|C07.commit-loop-no-log-change")
	vAssert(post.applied == pre.applied, "C01.commit-loop-applied-untouched")
	r.state = ctl.postState
	vCheckInv(n, true, true)
	r.state = Shutdown
	if pre.state != Leader {
		vAssert(post.commit == pre.commit, "C01|C04.only-leader-commits-by-counting")
		vCover("non-leader")
		return
	}
	// C15.noop (progress): the largest current-term entry held by a majority of voters gets committed
	nvAll := vRefVoters(r.configuration, ids)
	selfV := 0
	if _, ok := r.configuration.Members["n1"]; ok && r.configuration.IsVoter["n1"] {
		selfV = 1
	}
	for i := pre.logLen - 1; i >= 1; i-- {
		idx := pre.firstIndex + uint64(i)
		cntI := selfV
		for _, id := range ids[1:] {
			if _, ok := r.configuration.Members[id]; ok && r.configuration.IsVoter[id] && r.followers[id].matchIndex >= idx {
				cntI++
			}
		}
		committable := vAnd(vAnd(idx > pre.commit, pre.terms[i] == pre.term), 2*cntI > nvAll)
		vAssert(vImplies(committable, post.commit >= idx), "C15.majority-held-current-term-entry-gets-committed")
	}
	if post.commit == pre.commit {
		vCover("no-advance")
		return
	}
	vCover("advanced")
	// the new commit index names an entry of the current term replicated on a majority of voters
	c := vConcretize(post.commit-pre.firstIndex, pre.logLen)
	vAssert(pre.terms[c] == pre.term, "C01|C03|C04|C07.commit-only-current-term-entries")
	nv := vRefVoters(r.configuration, ids)
	cnt := 0
	if _, ok := r.configuration.Members["n1"]; ok && r.configuration.IsVoter["n1"] {
		cnt = 1 // the leader's own log
	}
	selfVoter := cnt == 1
	have := cnt
	for _, id := range ids[1:] {
		if _, ok := r.configuration.Members[id]; ok && r.configuration.IsVoter[id] {
			if r.followers[id].matchIndex >= post.commit {
				have++
			}
		}
	}
	vTagInt("voters", nv)
	vTagBool("selfVoter", selfVoter)
	vAssert(2*have > nv, "C01|C03|C04|C07|C09.commit-needs-majority-of-voters")
	vCoverIf(nv >= 3, "three-or-more-voters")
}

func vh_Quorum() {
	ids := []string{"n1", "n2", "n3", "n4", "n5"}
	n := vBuildNode(vNodeSpec{name: "q", self: "n1", ids: ids, maxLog: 0,
		states: []State{Follower}, members: "any"})
	count := vNondetInt("count")
	vAssume(count >= 0)
	vAssume(count <= 6)
	got := n.r.hasQuorum(count)
	nv := vRefVoters(n.r.configuration, ids)
	vAssert(got == (2*count > nv), "C01|C02|C04|C05|C07|C09.hasQuorum-is-strict-majority-of-voters")
	vTagInt("voters", nv)
	vCoverIf(got, "quorum")
	vCoverIf(!got, "no-quorum")
}
