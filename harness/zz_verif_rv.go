package raft

import "time"

// vh_RV: the RequestVote handler from an arbitrary node state with an arbitrary request (L1).
// Obligations: C08.* (term/vote monotone, durable, prevote harmless), C02.vote1, C07.restrict,
// C16.sticky, INV.N3.

func vUpToDate(reqTerm, reqIndex, lastTerm, lastIndex uint64) bool {
	return vOr(reqTerm > lastTerm, vAnd(reqTerm == lastTerm, reqIndex >= lastIndex))
}

func vh_RV() {
	ids := []string{"n1", "n2", "n3"}
	n := vBuildNode(vNodeSpec{name: "v", self: "n1", ids: ids, maxLog: vBound("log"),
		states: []State{Follower, PreCandidate, Candidate, Leader, Shutdown}, members: "all-voters"})
	r := n.r
	recent := vSetContact(r, "v")
	leaseValid := vSetLease(r, "v")
	pre := vSnapshotNode(n)

	req := &RequestVoteRequest{
		CandidateID:  vNondetStr("req.cand", "", "n1", "n2", "n3"),
		Term:         vNondetU64("req.term"),
		LastLogIndex: vNondetU64("req.lastIndex"),
		LastLogTerm:  vNondetU64("req.lastTerm"),
		Prevote:      vNondetBool("req.prevote"),
	}
	resp := &RequestVoteResponse{}
	err := r.RequestVote(req, resp)
	vDrain()
	post := vSnapshotNode(n)

	if pre.state == Shutdown {
		vAssert(err != nil, "C18.rv-shutdown-error")
		vAssert(vAnd(post.term == pre.term, post.votedFor == pre.votedFor), "C08.shutdown-untouched")
		vCover("shutdown")
		return
	}
	vAssert(err == nil, "C18.rv-total")
	vAssert(!vHeld(&r.mu), "C18|C20.lock-released")

	// C08: term monotone, reply term bounded by pre-term and durable term
	vAssert(post.term >= pre.term, "C08.termMono")
	vAssert(resp.Term >= pre.term, "C08.respTerm>=pre")
	vAssert(resp.Term <= post.durTerm, "C08.respTerm<=durable")
	vAssert(vAnd(post.durTerm == post.term, post.durVote == post.votedFor), "C02|C08.persisted(N3)")
	vAssert(post.durTerm >= pre.durTerm, "C08.durableTermMono")

	// C08: a prevote never changes term, vote, durable pair, role
	if req.Prevote {
		vAssert(vAnd(post.term == pre.term, post.votedFor == pre.votedFor), "C08|C16.prevote-no-change")
		vAssert(vAnd(post.durTerm == pre.durTerm, post.durVote == pre.durVote), "C08|C16.prevote-no-durable-change")
		vAssert(post.state == pre.state, "C08|C16.prevote-no-role-change")
		vAssert(post.writes == pre.writes, "C08.prevote-no-write")
	}

	granted := vAnd(resp.VoteGranted, !req.Prevote)
	vCoverIf(granted, "granted")
	vCoverIf(vAnd(resp.VoteGranted, req.Prevote), "prevote-granted")
	vCoverIf(vAnd(granted, req.Term > pre.term), "granted-higher-term")
	vCoverIf(vAnd(!resp.VoteGranted, req.Term >= pre.term), "refused")

	// C02.vote1: a real vote goes to the candidate, in the request's term, only if no other vote was cast this term
	vAssert(vImplies(granted, vAnd(post.votedFor == req.CandidateID, post.term == req.Term)), "C01|C02|C08.vote-recorded")
	vAssert(vImplies(granted, vOr(vOr(pre.votedFor == "", pre.votedFor == req.CandidateID), req.Term > pre.term)), "C01|C02|C07|C08.one-vote-per-term")
	vAssert(vImplies(granted, vAnd(post.durVote == req.CandidateID, post.durTerm == req.Term)), "C01|C02|C07|C08.vote-durable-before-reply")
	vAssert(vImplies(granted, resp.Term == req.Term), "C02.grant-reply-term")
	// GA3 facts the sender-side harness (vh_SRV) assumes about replies
	vAssert(vImplies(vAnd(resp.VoteGranted, req.Prevote), resp.Term <= req.Term), "C02|C16.prevote-grant-reply-term")
	// G2: a recorded vote of an unchanged term is never replaced or cleared
	vAssert(vImplies(vAnd(post.term == pre.term, pre.votedFor != ""), post.votedFor == pre.votedFor), "C01|C02|C07|C08.vote-stable(G2)")
	// no grant for a stale term
	vAssert(vImplies(resp.VoteGranted, req.Term >= pre.term), "C02|C08.no-grant-stale-term")

	// C07.restrict / C08.uptodate: any grant (vote or prevote) needs an up-to-date candidate log
	vAssert(vImplies(resp.VoteGranted, vUpToDate(req.LastLogTerm, req.LastLogIndex, pre.lastTerm, pre.lastIndex)), "C01|C04|C07|C08.up-to-date")

	// C16.sticky: recent leader contact or a valid lease => nothing changes, nothing granted
	if recent || leaseValid {
		vAssert(!resp.VoteGranted, "C16|C17.sticky-no-grant")
		vAssert(vAnd(vAnd(post.term == pre.term, post.votedFor == pre.votedFor), post.state == pre.state), "C16|C17.sticky-no-change")
		vAssert(post.writes == pre.writes, "C16.sticky-no-write")
		vCover("sticky")
	}

	// C15.elect (progress): a request that is entitled to the vote gets it - not stale, no fresh leader
	// contact, vote still free in that term (or a prevote), candidate's log up to date
	free := vOr(req.Prevote, vOr(req.Term > pre.term, vOr(pre.votedFor == "", pre.votedFor == req.CandidateID)))
	entitled := vAnd(vAnd(!recent, !leaseValid), vAnd(req.Term >= pre.term, vAnd(free, vUpToDate(req.LastLogTerm, req.LastLogIndex, pre.lastTerm, pre.lastIndex))))
	vAssert(vImplies(entitled, resp.VoteGranted), "C15.entitled-candidate-gets-the-vote")
	// a real vote counts as contact: the voter does not start a competing election right away
	if !req.Prevote {
		vAssert(vImplies(resp.VoteGranted, time.Since(r.lastContact) < vTimeMargin), "C15|C16.granting-a-vote-resets-the-election-timer")
	}
	vAssert(vImplies(!resp.VoteGranted, r.lastContact == pre.lastContact), "C16.refusal-does-not-touch-the-election-timer")

	// the log is never touched by RequestVote
	vAssert(vAnd(post.logLen == pre.logLen, vAnd(post.lastIndex == pre.lastIndex, post.lastTerm == pre.lastTerm)), "C01|C06.rv-log-untouched")
	vAssert(vAnd(post.commit == pre.commit, post.applied == pre.applied), "C01.rv-commit-untouched")
	vCheckInv(n, true, true)
}
