package raft

// vh_ALIS: applyLoop composed with a complete, real InstallSnapshot that runs while the lock is
// released around fsm.Apply (L2: two real activities of one node in one symbolic run).
// The snapshot is restored into the state machine before the in-flight Apply takes effect.
// Obligation: C10.install - no operation is applied on top of a state that already reflects it;
// lastApplied/commitIndex end at the label or beyond; C01.apply order per state-machine instance.

func vh_ALIS() {
	ids := []string{"n1", "n2"}
	n := vBuildNode(vNodeSpec{name: "a", self: "n1", ids: ids, maxLog: vBound("log"), dataLen: 1, snap: true,
		states: []State{Follower}, members: "all-voters"})
	r := n.r
	vAssume(len(n.log.entries) >= 2)
	vAssume(r.lastApplied < r.commitIndex)
	n.fsm.through = r.lastApplied
	vAssume(n.log.entries[int(1)].Index >= 1)
	cfgData, _ := n.tr.EncodeConfiguration(r.configuration)
	L := vNondetU64("is.label")
	vAssume(vAnd(L > r.lastApplied, L < vMaxIdx))
	req := &InstallSnapshotRequest{LeaderID: "n2", Term: r.currentTerm, LastIncludedIndex: L, LastIncludedTerm: vNondetU64("is.labelTerm"),
		Configuration: cfgData, Offset: 0, Done: true}
	// the snapshot's payload names the prefix it reflects (what the sender's state machine wrote)
	var b [8]byte
	for i := 0; i < 8; i++ {
		b[i] = byte(L >> (8 * uint(i)))
	}
	req.Bytes = b[:]
	// the boundary entry is absent or conflicts, so the snapshot is restored into the state machine
	if bt, ok := vTermAtSym(&vSnap{firstIndex: n.log.entries[0].Index, lastIndex: n.log.LastIndex(), logLen: len(n.log.entries), terms: vTermsOf(n.log)}, L); ok {
		vAssume(bt != req.LastIncludedTerm)
		vAssume(L > r.commitIndex) // GA2': a committed entry agrees with the snapshot
	}
	pre := vSnapshotNode(n)
	installed := false
	doInstall := vNondetBool("install-during-apply")
	if doInstall {
		vTag("install-during-apply", "true")
	} else {
		vTag("install-during-apply", "false")
	}
	n.fsm.preApply = func(op *Operation) {
		if installed || !doInstall {
			return
		}
		installed = true
		resp := &InstallSnapshotResponse{}
		err := r.InstallSnapshot(req, resp)
		vAssert(err == nil, "C18.is-total")
	}
	ctl := &vLoopCtl{}
	var post vSnap
	ctl.after = func() { post = vSnapshotNode(n) }
	n.hook = vLoopHook(n, ctl, "apply")
	r.wg.Add(1)
	r.applyLoop()
	vDrain()
	if !installed {
		vCover("apply-without-install")
		vAssert(!n.fsm.order, "C01|C10.operations-applied-in-order")
		vCheckInv(n, true, true)
		return
	}
	vCover("install-during-apply")
	vAssert(n.fsm.restores == 1, "C10.snapshot-restored")
	vAssert(!n.fsm.order, "C10.no-operation-applied-on-a-state-that-already-reflects-it")
	vAssert(vAnd(post.applied >= L, post.commit >= L), "C10|C11.indices-at-or-beyond-label-after-install")
	vAssert(post.applied >= pre.applied, "C11.applied-monotone")
	// the log was discarded up to the label, so nothing beyond the label can have been handed to the state machine:
	// lastApplied names the label exactly (every index at or below lastApplied is reflected by the snapshot or was applied)
	vAssert(vAnd(post.applied == L, post.commit == L), "C01|C03|C04|C10.applied-index-is-exactly-the-label-after-install")
	vCheckInv(n, true, true)
}

func vTermsOf(l *persistentLog) []uint64 {
	t := make([]uint64, len(l.entries))
	for i := range l.entries {
		t[i] = l.entries[i].Term
	}
	return t
}
