package raft

// vh_ALIS: applyLoop composed with a complete, real InstallSnapshot that runs while the lock is
// released around fsm.Apply (L2: two real activities of one node in one symbolic run).
// The snapshot is restored into the state machine before the in-flight Apply takes effect.
// Obligation: C10.install - no operation is applied on top of a state that already reflects it;
// lastApplied/commitIndex end at the label or beyond; C01.apply order per state-machine instance.

func vh_ALIS() {
	ids := []string{"n1", "n2"}
	n := vBuildNode(vNodeSpec{name: "a", self: "n1", ids: ids, maxLog: vBound("log"), dataLen: 1, snap: true,
		states: []State{Follower}, members: "all-voters"})
	r := n.r
	vAssume(len(n.log.entries) >= 2)
	vAssume(r.lastApplied < r.commitIndex)
	n.fsm.through = r.lastApplied
	vAssume(n.log.entries[int(1)].Index >= 1)
	cfgData, _ := n.tr.EncodeConfiguration(r.configuration)
	L := vNondetU64("is.label")
	vAssume(vAnd(L > r.lastApplied, L < vMaxIdx))
	req := &InstallSnapshotRequest{LeaderID: "n2", Term: r.currentTerm, LastIncludedIndex: L, LastIncludedTerm: vNondetU64("is.labelTerm"),
		Configuration: cfgData, Offset: 0, Done: true}
	// the snapshot's payload names the prefix it reflects (what the sender's state machine wrote)
	var b [8]byte
	for i := 0; i < 8; i++ {
		b[i] = byte(L >> (8 * uint(i)))
	}
	req.Bytes = b[:]
	// the boundary entry is absent or conflicts, so the snapshot is restored into the state machine
	if bt, ok := vTermAtSym(&vSnap{firstIndex: n.log.entries[0].Index, lastIndex: n.log.LastIndex(), logLen: len(n.log.entries), terms: vTermsOf(n.log)}, L); ok {
		vAssume(bt != req.LastIncludedTerm)
		vAssume(L > r.commitIndex) // GA2': a committed entry agrees with the snapshot
	}
	pre := vSnapshotNode(n)
	installed := false
	more := vNondetBool("entries-committed-after-the-install")
	appended := false
	doInstall := vNondetBool("install-during-apply")
	if doInstall {
		vTag("install-during-apply", "true")
	} else {
		vTag("install-during-apply", "false")
	}
	n.fsm.preApply = func(op *Operation) {
		if installed || !doInstall {
			return
		}
		installed = true
		resp := &InstallSnapshotResponse{}
		err := r.InstallSnapshot(req, resp)
		vAssert(err == nil, "C18.is-total")
		// ... and, still before the Apply returns, the leader's next entries arrive and are committed
		if more && r.lastIncludedIndex == L {
			es := []*LogEntry{{Index: L + 1, Term: req.LastIncludedTerm, EntryType: OperationEntry, Data: []byte{1}},
				{Index: L + 2, Term: req.LastIncludedTerm, EntryType: OperationEntry, Data: []byte{2}}}
			ar := &AppendEntriesResponse{}
			aerr := r.AppendEntries(&AppendEntriesRequest{LeaderID: "n2", Term: r.currentTerm, PrevLogIndex: L, PrevLogTerm: req.LastIncludedTerm,
				Entries: es, LeaderCommit: L + 2}, ar)
			appended = aerr == nil && ar.Success
		}
	}
	ctl := &vLoopCtl{}
	var post vSnap
	ctl.after = func() { post = vSnapshotNode(n) }
	n.hook = vLoopHook(n, ctl, "apply")
	r.wg.Add(1)
	r.applyLoop()
	vDrain()
	if !installed {
		vCover("apply-without-install")
		vAssert(!n.fsm.order, "C01|C10.operations-applied-in-order")
		vCheckInv(n, true, true)
		return
	}
	vCover("install-during-apply")
	vAssert(n.fsm.restores == 1, "C10.snapshot-restored")
	vAssert(!n.fsm.order, "C10.no-operation-applied-on-a-state-that-already-reflects-it")
	vAssert(vAnd(post.applied >= L, post.commit >= L), "C10|C11.indices-at-or-beyond-label-after-install")
	vAssert(post.applied >= pre.applied, "C11.applied-monotone")
	if appended {
		// two operations were committed behind the snapshot while the Apply was still in flight: each of them is handed
		// to the state machine exactly once, in order, and lastApplied names the last one
		vCover("entries-committed-after-the-install")
		var behind []uint64
		for _, a := range n.fsm.applied {
			if a.typ == Replicated && a.index > L {
				behind = append(behind, a.index)
			}
		}
		vAssert(vAnd(post.applied == L+2, post.commit == L+2), "C01|C03|C10|C11.everything-committed-behind-the-snapshot-gets-applied")
		vAssert(len(behind) == 2, "C01|C03|C10|C11.no-committed-entry-behind-the-snapshot-is-skipped")
		if len(behind) == 2 {
			vAssert(vAnd(behind[0] == L+1, behind[1] == L+2), "C01|C03|C10|C11.no-committed-entry-behind-the-snapshot-is-skipped")
		}
		vCheckInv(n, true, true)
		return
	}
	// the log was discarded up to the label, so nothing beyond the label can have been handed to the state machine:
	// lastApplied names the label exactly (every index at or below lastApplied is reflected by the snapshot or was applied)
	vAssert(vAnd(post.applied == L, post.commit == L), "C01|C03|C04|C10.applied-index-is-exactly-the-label-after-install")
	vCheckInv(n, true, true)
}

func vTermsOf(l *persistentLog) []uint64 {
	t := make([]uint64, len(l.entries))
	for i := range l.entries {
		t[i] = l.entries[i].Term
	}
	return t
}
