package raft

// vh_SAE: one sendAppendEntries goroutine (pre-segment, RPC, post-segment) from an arbitrary node
// state with nextIndex beyond the compacted prefix (the snapshot path is vh_SIS), the node havocked
// under the rely while the RPC is in flight, arbitrary reply (L1).
// GA3: a reply with Success was produced by the real handler for this request, hence carries the
// request's term (discharged in vh_AE: C01.success-reply-carries-request-term).

func vh_SAE() {
	ids := []string{"n1", "n2", "n3"}
	n := vBuildNode(vNodeSpec{name: "l", self: "n1", ids: ids, maxLog: vBound("log"), dataLen: 1,
		states: []State{Leader, Follower, Candidate}, members: "any", snap: true})
	r := n.r
	vAssume(vImplies(r.state == Leader, r.votedFor == "n1")) // N4
	vAssume(n.log.LastTerm() <= r.currentTerm)               // N1
	target := ids[1+vChoose("target", 2)]
	last := n.log.LastIndex()
	if f, ok := r.followers[target]; ok {
		f.nextIndex = vNondetU64("l.next")
		f.matchIndex = vNondetU64("l.match")
		vAssume(vAnd(f.matchIndex < f.nextIndex, f.nextIndex <= last+1)) // N7
		vAssume(f.nextIndex > r.lastIncludedIndex)                      // the snapshot path is vh_SIS
	}
	// a heartbeat round in progress: counter shared by the goroutines of the round (nil once it fired)
	cnt := vNondetInt("round.count")
	vAssume(vAnd(cnt >= 0, cnt <= 3))
	var cntp *int
	if vNondetBool("round.live") {
		cntp = &cnt
	}
	cnt0 := cnt
	nv := vRefVoters(r.configuration, ids)
	targetVoter := vRefIsVoter(r.configuration, target)
	vSetLease(r, "l")
	lease0 := r.operationManager.leaderLease
	exp0 := lease0.expiration
	// a linearizable read waiting for leadership confirmation
	// heartbeat rounds are numbered; the read remembers how many had been started when it was submitted
	round := vNondetU64("round")
	rd := &Operation{OperationType: LinearizableReadOnly, readIndex: r.commitIndex, round: vNondetU64("read.round")}
	r.operationManager.rounds = vNondetU64("rounds")
	vAssume(vAnd(round >= 1, round <= r.operationManager.rounds))
	vAssume(vAnd(rd.round <= r.operationManager.rounds, r.operationManager.rounds < vMaxIdx))
	if r.state == Leader {
		r.operationManager.pendingReadOnly[rd] = make(chan Result[OperationResponse], 1)
	}
	pre := vSnapshotNode(n)
	match0 := uint64(0)
	next0 := uint64(0)
	if f, ok := r.followers[target]; ok {
		match0, next0 = f.matchIndex, f.nextIndex
	}

	var sent *AppendEntriesRequest
	var mid vSnap
	var resp AppendEntriesResponse
	rpcFailed := false
	n.tr.onAE = func(addr string, req AppendEntriesRequest) (AppendEntriesResponse, error) {
		sent = &req
		at := vSnapshotNode(n)
		vAssert(!vHeld(&r.mu), "C20.lock-released-around-rpc")
		// C02.lead: only a leader sends, naming itself and its term
		vAssert(at.state == Leader, "C02.only-leader-sends-append-entries")
		vAssert(vAnd(req.LeaderID == "n1", req.Term == at.term), "C02.request-names-leader-and-term")
		vAssert(addr == "addr-"+target, "C02.request-goes-to-target")
		// MsgInv: the request is a faithful window of the leader's log
		vAssert(vAnd(req.PrevLogIndex >= at.firstIndex, req.PrevLogIndex <= at.lastIndex), "MSG.prev-within-log")
		po := vConcretize(req.PrevLogIndex-at.firstIndex, at.logLen)
		vAssert(req.PrevLogTerm == at.terms[po], "C06|MSG.prev-term-is-leaders")
		vAssert(req.PrevLogIndex+1 == next0, "MSG.prev-is-next-minus-one")
		vAssert(len(req.Entries) == at.logLen-1-po, "C06|MSG.entries-through-last")
		for i := 0; i < len(req.Entries) && po+1+i < at.logLen; i++ {
			e := req.Entries[i]
			vAssert(vAnd(e.Index == req.PrevLogIndex+1+uint64(i), e.Term == at.terms[po+1+i]), "C06|MSG.entries-are-leaders")
			vAssert(e == n.log.entries[po+1+i], "C06|C19.entries-are-leaders")
		}
		vAssert(req.LeaderCommit == at.commit, "MSG.leader-commit")
		vAssert(req.LeaderCommit <= req.PrevLogIndex+uint64(len(req.Entries)), "C06|MSG.leader-commit-within-request")
		vHavocScalars(n, "h", []State{Leader, Follower, Candidate})
		// G5: a node that is still leader of the same term may have appended to its log meanwhile
		if r.state == Leader && r.currentTerm == at.term && vNondetBool("h.log-grew") {
			ne := &LogEntry{Index: n.log.LastIndex() + 1, Term: r.currentTerm, EntryType: OperationEntry, Data: []byte{vNondetByte("h.newdata")}}
			n.log.entries = append(n.log.entries, ne)
			vTag("log-grew-during-rpc", "yes")
		}
		mid = vSnapshotNode(n)
		if vNondetBool("rpc.fails") {
			rpcFailed = true
			return AppendEntriesResponse{}, errVBackground
		}
		resp = AppendEntriesResponse{Term: vNondetU64("resp.term"), Success: vNondetBool("resp.success"), Index: vNondetU64("resp.index")}
		vAssume(vImplies(resp.Success, resp.Term == req.Term)) // GA3
		vAssume(resp.Index < vMaxIdx)
		return resp, nil
	}
	r.sendAppendEntries(target, "addr-"+target, cntp, round)
	vDrain()
	vAssert(!vHeld(&r.mu), "C18|C20.lock-released")
	if sent == nil {
		vCover("not-sent")
		post := vSnapshotNode(n)
		vAssert(vAnd(post.term == pre.term, post.state == pre.state), "C02.unsent-changes-nothing")
		vAssert(cnt == cnt0, "C05.unsent-counts-nothing")
		return
	}
	vCover("sent")
	post := vSnapshotNode(n)
	f := r.followers[target]
	vCheckInv(n, true, true)
	vAssert(post.term >= mid.term, "C08.termMono")
	vAssert(vAnd(post.durTerm == post.term, post.durVote == post.votedFor), "C02|C08.persisted(N3)")
	vAssert(vImplies(vAnd(post.term == mid.term, mid.votedFor != ""), post.votedFor == mid.votedFor), "C01|C02|C07|C08.vote-stable(G2)")
	vAssert(vImplies(vAnd(mid.state == Leader, post.state != Leader), post.term > mid.term), "C16.leader-steps-down-only-on-higher-term")
	vAssert(vAnd(post.logLen == mid.logLen, post.commit == mid.commit), "C01|C07.sender-never-rewrites-log")
	if !rpcFailed && mid.state == Leader && vRefIsMember(r.configuration, target) {
		vAssert(vImplies(resp.Term > mid.term, vAnd(post.term == resp.Term, post.state == Follower)), "C08|C15.newer-reply-term-deposes-the-sender")
	}
	if f == nil {
		return
	}
	// ---- C01.match: matchIndex only records what the answered request established, in its own term
	if f.matchIndex != match0 {
		vCover("match-advanced")
		vAssert(resp.Success, "C01|C03|C04|C07.match-only-on-success")
		vAssert(post.state == Leader, "C01|C07.match-only-while-leader")
		vAssert(post.term == sent.Term, "C01|C03|C04|C07.match-only-in-the-term-of-the-request")
		vAssert(f.matchIndex == sent.PrevLogIndex+uint64(len(sent.Entries)), "C01|C03|C04|C07.match-is-last-entry-of-request")
		vAssert(f.matchIndex <= post.lastIndex, "C01|INV.match<=last(N7)")
		vAssert(f.matchIndex > match0, "C01.match-monotone")
		vAssert(f.nextIndex > f.matchIndex, "INV.match<next(N7)")
	}
	// C15 (progress): a successful reply of the current term, processed while still leader, is recorded
	if !rpcFailed && resp.Success && mid.state == Leader && mid.term == sent.Term && post.state == Leader {
		m := sent.PrevLogIndex + uint64(len(sent.Entries))
		vAssert(f.matchIndex >= m || f.matchIndex == match0 && m <= match0, "C15.successful-reply-advances-matchIndex")
		vAssert(f.nextIndex >= m+1, "C15.successful-reply-advances-nextIndex")
	}
	if f.nextIndex != next0 && f.matchIndex == match0 {
		vCover("next-backed-off")
		vAssert(vAnd(!resp.Success, f.nextIndex == resp.Index), "C15.next-follows-hint")
	}
	// ---- C05.voters / C05.term / C17.renew: leadership confirmation
	vAssert(vOr(cnt == cnt0, cnt == cnt0+1), "C05.counter-grows-by-at-most-one")
	if cnt == cnt0+1 {
		vCover("reply-counted")
		vAssert(targetVoter, "C05|C09|C17.only-voter-replies-count")
		vAssert(post.term == sent.Term, "C05|C17.only-replies-of-the-current-term-count")
		vAssert(mid.state == Leader, "C05.only-leader-counts-replies")
	}
	// if-direction (C16.renew, C17.renew, C15): a reply of the request's own term that reaches the node while it still leads
	// that term, from a voting member, in a live round, is contact with that voter - whether it accepts or rejects the
	// entries (a follower that is being repaired answers many rounds in a row with rejections)
	if !rpcFailed && cntp != nil && targetVoter && mid.state == Leader && mid.term == sent.Term && resp.Term == sent.Term {
		vCover("current-term-voter-reply")
		vAssert(cnt == cnt0+1, "C15|C16|C17.every-current-term-reply-from-a-voter-counts-as-contact")
		if 2*(cnt0+1) > nv {
			// from now on the lease runs for (about) its full duration again
			vAssert(lease0.expiration.Sub(vTimeAgo(0)) > vLeaseDuration-vTimeMargin, "C15|C16|C17.contact-with-a-majority-of-voters-renews-the-lease")
		}
	}
	if lease0.expiration != exp0 {
		vCover("lease-renewed")
		vAssert(cntp != nil, "C17.renewal-needs-a-live-round")
		vAssert(2*cnt > nv, "C09|C17.renewal-needs-majority-of-voters")
		vAssert(vAnd(post.term == sent.Term, mid.state == Leader), "C17.renewal-only-in-the-term-of-the-round")
		// the lease runs for the configured duration from the renewal, not longer
		left := lease0.expiration.Sub(vTimeAgo(0))
		vAssert(vAnd(left > vLeaseDuration-vTimeMargin, left < vLeaseDuration+vTimeMargin), "C17.lease-runs-for-the-configured-duration")
	}
	if rd.quorumVerified {
		vCover("read-verified")
		vAssert(cntp != nil, "C05.verification-needs-a-live-round")
		vAssert(rd.round < round, "C05.verifying-round-started-after-the-read-was-submitted")
		vAssert(2*cnt > nv, "C05|C09|C17.verification-needs-majority-of-voters")
		vAssert(vAnd(post.term == sent.Term, mid.state == Leader), "C05|C17.verification-only-in-the-term-of-the-round")
	}
}
