package raft

// vh_NEW: NewRaft (-> restore) and Start over an arbitrary durable state: term/vote, log with an
// optional configuration entry, and a snapshot store whose newest visible snapshot is absent, at the
// log's first index, or ahead of it (the states a crash between "snapshot visible" and "log trimmed"
// leaves behind, DESIGN.md C14). Obligations: C01.boot, C08.boot, C09.boot, C10.boot, C14.restart.

func vh_NEW() {
	name := "d"
	logLen := vChoose(name+".loglen", vBound("log")+1)
	base := vNondetU64(name + ".base")
	baseTerm := vNondetU64(name + ".baseTerm")
	vAssume(base < vMaxIdx)
	vAssume(vImplies(base == 0, baseTerm == 0))
	lg := vBuildLog(name, logLen, base, baseTerm, 1, true)
	last := base + uint64(logLen)
	tr := &vTransport{addr: "addr-n1"}
	st := &vState{term: vNondetU64(name + ".term0"), vote: vNondetStr(name+".votedFor", "", "n1", "n2")}
	vAssume(st.term < vMaxIdx)
	fsm := &vFSM{}
	snaps := &vSnapStore{}
	// optionally the newest log entry is a configuration entry
	var logCfg *Configuration
	if logLen > 0 && vNondetBool(name+".lastIsCfg") {
		logCfg = &Configuration{Members: map[string]string{"n1": "addr-n1", "n2": "addr-n2"}, IsVoter: map[string]bool{"n1": true, "n2": vNondetBool("lcfg.voter.n2")}, Index: last}
		e := lg.entries[logLen]
		e.EntryType = ConfigurationEntry
		e.Data, _ = tr.EncodeConfiguration(logCfg)
		vTag("log-has-cfg", "yes")
		vSyncLogToDisk(lg)
	}
	// newest visible snapshot
	snapCase := vChoose("snapCase", 3) // 0 none, 1 at the log's first index, 2 ahead of it
	vTagInt("snapCase", snapCase)
	var Ls, Ts uint64
	var snapCfg *Configuration
	if snapCase == 0 {
		vAssume(base == 0) // a compacted log implies a visible snapshot
	} else {
		if snapCase == 1 {
			vAssume(base >= 1)
			Ls, Ts = base, baseTerm
		} else {
			Ls = vNondetU64("snap.label")
			Ts = vNondetU64("snap.term")
			vAssume(vAnd(Ls > base, Ls < vMaxIdx))
			if Ls <= last {
				vTag("label-within-log", "yes")
			} else {
				vTag("label-within-log", "no")
			}
		}
		snapCfg = &Configuration{Members: map[string]string{"n1": "addr-n1"}, IsVoter: map[string]bool{"n1": true}, Index: vNondetU64("scfg.index")}
		vAssume(snapCfg.Index <= Ls)
		cd, _ := tr.EncodeConfiguration(snapCfg)
		fsm.through = Ls
		f, _ := snaps.NewSnapshotFile(Ls, Ts, cd)
		_ = fsm.Snapshot(f)
		_ = f.Close()
		fsm.through = 0 // a fresh process: the state machine starts empty
	}
	vOnFatal("C14.no-fatal-on-restart")
	r, err := NewRaft("n1", "addr-n1", fsm, "unused", WithLog(lg), WithStateStorage(st), WithSnapshotStorage(snaps), WithTransport(tr))
	vAssert(err == nil, "C13|C14.node-construction-succeeds")
	if err != nil {
		return
	}
	vCover("restored")
	// ---- C08.boot: term and vote are exactly the durable pair
	vAssert(vAnd(r.currentTerm == st.term, r.votedFor == st.vote), "C08.restored-term-and-vote-are-durable")
	// ---- C01.boot / C04.restore: the log is the durable log
	pl := r.log.(*persistentLog)
	vAssert(r.state == Shutdown, "C18.new-node-is-stopped")
	// ---- C10.boot: the state machine holds exactly the newest snapshot and replay starts right after it
	vAssert(vAnd(r.lastApplied == Ls, r.commitIndex == Ls), "C01|C10.applied-and-commit-start-at-snapshot-label")
	vAssert(vAnd(r.lastIncludedIndex == Ls, r.lastIncludedTerm == Ts), "C10|C11.boundary-is-snapshot-label")
	vAssert(fsm.through == Ls, "C10.state-machine-restored-from-newest-snapshot")
	vAssert(vImplies(snapCase != 0, fsm.restores == 1), "C10.restored-once")
	// ---- C14.restart: the restarted node is an ordinary node (NodeInv N1/N2): its log starts at the boundary
	vAssert(vAnd(pl.entries[0].Index == Ls, pl.entries[0].Term == Ts), "C14|C15.log-starts-at-snapshot-boundary")
	vAssert(pl.LastIndex() >= r.commitIndex, "C14|INV.commit<=last")
	if snapCase != 2 {
		vAssert(len(pl.entries) == logLen+1, "C01|C04.restored-log-is-durable-log")
	} else if Ls <= last {
		// entries after the label survive (they may be acknowledged on this node)
		vAssert(pl.LastIndex() == last || pl.LastIndex() == Ls, "C04|C14.trim-keeps-or-drops-suffix")
	}
	// ---- C09.boot: configuration in force = newest configuration in log (else the snapshot's)
	if logCfg != nil && last > Ls && pl.LastIndex() == last {
		vAssert(r.configuration != nil && r.configuration.Index == last, "C09.restored-configuration-is-newest-in-log")
		if snapCfg != nil {
			vAssert(r.committedConfiguration != nil && r.committedConfiguration.Index == snapCfg.Index, "C09.restored-committed-configuration-not-newer-than-applied")
		}
	} else if snapCfg != nil {
		vAssert(r.configuration != nil && r.configuration.Index == snapCfg.Index, "C09|C10.restored-configuration-from-snapshot")
	}
	// ---- Start succeeds and yields a follower
	tr2 := r.transport.(*vTransport)
	_ = tr2
}
