package raft

import "time"

// vh_AE: the AppendEntries handler from an arbitrary node state with an arbitrary request (L1).
// Request structure assumed: entry indices are contiguous from PrevLogIndex+1 (DESIGN.md §4 C06).
// GA1 assumed: a leader of term t never receives a request of term t.
// Obligations: C06.* (log matching step), C01.followerCommit, C04.followerDurable, C02|C08 vote
// stability (G2) and persistence, C03.fail (pending futures failed on step-down), C09.fallback.

// vTermAt returns the term the snapshot's log holds at idx (the placeholder counts as an entry).
func vTermAt(s *vSnap, idx uint64) (uint64, bool) {
	if idx < s.firstIndex || idx > s.lastIndex {
		return 0, false
	}
	return s.terms[idx-s.firstIndex], true
}

func vMinU64(a, b uint64) uint64 { return vIteU64(a < b, a, b) }
func vMaxU64(a, b uint64) uint64 { return vIteU64(a > b, a, b) }

func vBuildAERequest(name string, maxEntries int) *AppendEntriesRequest {
	req := &AppendEntriesRequest{
		LeaderID:     vNondetStr(name+".leader", "n1", "n2", "n3"),
		Term:         vNondetU64(name + ".term"),
		PrevLogIndex: vNondetU64(name + ".prevIndex"),
		PrevLogTerm:  vNondetU64(name + ".prevTerm"),
		LeaderCommit: vNondetU64(name + ".leaderCommit"),
	}
	vAssume(req.PrevLogIndex < vMaxIdx)
	k := vChoose(name+".nentries", maxEntries+1)
	for i := 0; i < k; i++ {
		e := &LogEntry{Index: req.PrevLogIndex + 1 + uint64(i), Term: vNondetU64(name + ".eterm"), EntryType: OperationEntry,
			Data: []byte{vNondetByte(name + ".edata")}}
		req.Entries = append(req.Entries, e)
	}
	return req
}

func vh_AE() {
	ids := []string{"n1", "n2", "n3"}
	n := vBuildNode(vNodeSpec{name: "f", self: "n1", ids: ids, maxLog: vBound("log"), dataLen: 1,
		states: []State{Follower, PreCandidate, Candidate, Leader}, members: "all-voters"})
	r := n.r
	vSetContact(r, "f")
	req := vBuildAERequest("req", vBound("entries"))
	// GA1 (election safety as a rely): no second leader in the leader's own term
	vAssume(vNot(vAnd(r.state == Leader, req.Term == r.currentTerm)))
	// a pending replicated operation and a pending read on a leader, to observe C03.fail
	// A leader may hold pending futures (N5). A non-leader can hold stale ones too: Stop does not fail
	// them and Start/Restart keeps the operation manager, so they survive a stop/start of the same object.
	var chRep chan Result[OperationResponse]
	var chRO chan Result[OperationResponse]
	if r.state == Leader || vNondetBool("stale-pending") {
		chRep = make(chan Result[OperationResponse], 1)
		chRO = make(chan Result[OperationResponse], 1)
		r.operationManager.pendingReplicated[n.log.LastIndex()+1] = chRep
		r.operationManager.pendingReadOnly[&Operation{OperationType: LinearizableReadOnly}] = chRO
	}
	// C11.reset: snapshot files that are open when the node changes role. A leader may be sending a snapshot
	// to a follower; any other node may hold a partially received one.
	var sendFile, recvFile *vSnapFile
	if r.state == Leader {
		sendFile = &vSnapFile{store: n.snaps, rec: &vSnapRec{visible: true}}
		r.followers["n2"].snapshot = sendFile
	} else if vNondetBool("partial-snapshot") {
		pf, _ := n.snaps.NewSnapshotFile(vNondetU64("partial.label"), vNondetU64("partial.term"), []byte{0})
		recvFile = pf.(*vSnapFile)
		r.snapshot = pf
	}
	pre := vSnapshotNode(n)
	preCfg := r.configuration
	preCommitted := r.committedConfiguration
	k := len(req.Entries)
	lastNew := req.PrevLogIndex + uint64(k)

	resp := &AppendEntriesResponse{}
	err := r.AppendEntries(req, resp)
	vDrain()
	post := vSnapshotNode(n)

	vAssert(err == nil, "C18.ae-total")
	vAssert(!vHeld(&r.mu), "C18|C20.lock-released")
	vAssert(post.term >= pre.term, "C08.termMono")
	vAssert(resp.Term >= pre.term, "C08.respTerm>=pre")
	vAssert(resp.Term <= post.durTerm, "C08.respTerm<=durable")
	vAssert(vAnd(post.durTerm == post.term, post.durVote == post.votedFor), "C02|C08.persisted(N3)")
	vAssert(vImplies(vAnd(post.term == pre.term, pre.votedFor != ""), post.votedFor == pre.votedFor), "C01|C02|C07|C08.vote-stable(G2)")
	vAssert(vImplies(resp.Success, req.Term >= pre.term), "C02|C06.no-accept-stale-term")
	// GA3 fact the sender-side harness (vh_SAE) assumes about replies
	vAssert(vImplies(resp.Success, resp.Term == req.Term), "C01|C05.success-reply-carries-request-term")
	vAssert(vImplies(req.Term < pre.term, vAnd(post.term == pre.term, post.state == pre.state)), "C16.stale-term-no-effect")
	// every request of the current (or a newer) term is leader contact - accepted or rejected: the voter's
	// refusal window must cover everything the leader counts as a confirmation (C16.sticky / C17.vote)
	if req.Term >= pre.term {
		vAssert(time.Since(r.lastContact) < vTimeMargin, "C16|C17.contact-recorded-for-every-current-term-request")
	} else {
		vAssert(r.lastContact == pre.lastContact, "C16.stale-request-is-not-contact")
	}
	vAssert(vImplies(vAnd(pre.state == Leader, post.state != Leader), req.Term > pre.term), "C16.leader-steps-down-only-on-higher-term")

	if pre.state == Leader && post.state != Leader {
		vCover("leader-stepped-down")
		vAssert(len(chRep) == 1, "C03|C18.pending-replicated-failed")
		vAssert(len(chRO) == 1, "C03|C18.pending-read-failed")
		if len(chRep) == 1 {
			res := <-chRep
			vAssert(res.Error() == ErrNotLeader, "C03.fail-is-ErrNotLeader")
		}
		vAssert(vAnd(len(r.operationManager.pendingReplicated) == 0, len(r.operationManager.pendingReadOnly) == 0), "C03.tables-reset")
	}
	// entering a new term, or stepping down from a candidacy, goes through becomeFollower: whatever
	// futures are still registered are failed there, so that none can later be answered with another
	// leader's entry at the same index
	if chRep != nil && pre.state != Leader && (post.term > pre.term || (req.Term == pre.term && (pre.state == Candidate || pre.state == PreCandidate))) {
		vCover("stale-futures-failed")
		vAssert(vAnd(len(chRep) == 1, len(chRO) == 1), "C03.stale-pending-futures-failed-on-new-term-or-step-down")
		vAssert(vAnd(len(r.operationManager.pendingReplicated) == 0, len(r.operationManager.pendingReadOnly) == 0), "C03.tables-reset")
	}
	becameFollower := post.term > pre.term || (req.Term == pre.term && (pre.state == Candidate || pre.state == PreCandidate))
	if sendFile != nil && post.state != Leader {
		vAssert(vAnd(sendFile.closed, r.followers["n2"] == nil || r.followers["n2"].snapshot == nil), "C11.deposed-leader-closes-the-snapshot-it-was-sending")
	}
	if recvFile != nil {
		if becameFollower {
			vCover("partial-snapshot-discarded")
			vAssert(vAnd(recvFile.closed, vAnd(recvFile.rec.discarded, !recvFile.rec.visible)), "C11.partial-snapshot-discarded-on-new-term-or-step-down")
			vAssert(r.snapshot == nil, "C11.partial-snapshot-discarded-on-new-term-or-step-down")
		} else {
			vAssert(vAnd(!recvFile.closed, r.snapshot == SnapshotFile(recvFile)), "C11.partial-snapshot-kept-within-the-term")
		}
	}
	if pre.state == Leader && post.state == Leader {
		vAssert(vAnd(len(chRep) == 0, len(chRO) == 0), "C03.pending-untouched-while-leader")
	}

	// C15.repair (progress): a current-term request whose prev entry matches is accepted
	if req.Term >= pre.term && req.PrevLogIndex >= pre.firstIndex && req.PrevLogIndex <= pre.lastIndex {
		ppo := vConcretize(req.PrevLogIndex-pre.firstIndex, pre.logLen)
		vAssert(vImplies(pre.terms[ppo] == req.PrevLogTerm, resp.Success), "C15.matching-request-is-accepted")
	}
	vCheckInv(n, false, true, false) // entry terms of an arbitrary request are not ordered (MsgInv is the sender's obligation)
	// ---- C06: the log only changes toward the sender's log
	if !resp.Success {
		vCover("rejected")
		// C15.repair: a rejection of a current-term request carries a hint that makes the sender progress:
		// strictly below its nextIndex (= prev+1), or right after this node's compacted prefix when that
		// lies beyond prev; never 0 (MsgInv: index 0 has term 0)
		if req.Term >= pre.term {
			msgInv := vImplies(req.PrevLogIndex == 0, req.PrevLogTerm == 0)
			vAssert(vImplies(msgInv, resp.Index >= 1), "C15.rejection-hint-is-a-log-index")
			vAssert(vOr(resp.Index <= req.PrevLogIndex, vAnd(pre.lastIncludedIndex > req.PrevLogIndex, resp.Index == pre.lastIncludedIndex+1)), "C15.rejection-hint-makes-progress")
			vAssert(resp.Index <= pre.lastIndex+1, "C15.rejection-hint-within-receivers-log")
		}
		vAssert(post.logLen == pre.logLen, "C06.reject-log-unchanged")
		if post.logLen == pre.logLen {
			for i := 0; i < pre.logLen; i++ {
				vAssert(post.terms[i] == pre.terms[i], "C06.reject-log-unchanged")
			}
		}
		vAssert(post.commit == pre.commit, "C06.reject-commit-unchanged")
		vAssert(post.applied == pre.applied, "C06.reject-applied-unchanged")
		return
	}
	vCover("accepted")
	// the prev-entry test of the paper held on the pre-log; from here on the position of
	// PrevLogIndex in the pre-log is a concrete offset on each path
	vAssert(vAnd(req.PrevLogIndex >= pre.firstIndex, req.PrevLogIndex <= pre.lastIndex), "C06.accept-needs-prev-entry")
	po := vConcretize(req.PrevLogIndex-pre.firstIndex, pre.logLen)
	vAssert(pre.terms[po] == req.PrevLogTerm, "C06.accept-needs-prev-term")
	// GA2 (leader completeness as a rely): the request agrees with the receiver on committed entries
	ga2 := true
	conflict := false
	for i := 0; i < k; i++ {
		if po+1+i < pre.logLen {
			differs := pre.terms[po+1+i] != req.Entries[i].Term
			conflict = vOr(conflict, differs)
			ga2 = vAnd(ga2, vImplies(pre.firstIndex+uint64(po+1+i) <= pre.commit, !differs))
		}
	}
	// entries at or below prev are untouched
	vAssert(post.firstIndex == pre.firstIndex, "C06.prefix-kept")
	vAssert(post.logLen > po, "C06.prefix-kept")
	for j := 0; j <= po && j < post.logLen; j++ {
		vAssert(post.terms[j] == pre.terms[j], "C06.prefix-kept")
	}
	// the request's entries are in the log afterwards (and durable: the log double is the real
	// persistentLog whose AppendEntries returns after Sync)
	vAssert(post.logLen >= po+1+k, "C04|C06.accept-entries-present")
	for i := 0; i < k && po+1+i < post.logLen; i++ {
		vAssert(post.terms[po+1+i] == req.Entries[i].Term, "C04|C06.accept-entries-present")
		had := po+1+i < pre.logLen
		e := n.log.entries[po+1+i]
		if !had {
			vAssert(vAnd(len(e.Data) == 1, e.Data[0] == req.Entries[i].Data[0]), "C04|C06.appended-entries-data")
		} else {
			vAssert(vImplies(pre.terms[po+1+i] != req.Entries[i].Term, vAnd(len(e.Data) == 1, e.Data[0] == req.Entries[i].Data[0])), "C04|C06.appended-entries-data")
		}
	}
	vCoverIf(conflict, "conflict-truncated")
	vCoverIf(vAnd(!conflict, pre.lastIndex > lastNew), "request-shorter-than-log")
	// nothing that does not conflict is removed; on conflict the log ends with the request
	vAssert(vImplies(conflict, post.logLen == po+1+k), "C06.conflict-truncates-to-request")
	if pre.logLen > po+1+k {
		vAssert(vImplies(!conflict, post.logLen == pre.logLen), "C06.no-conflict-keeps-suffix")
		if post.logLen == pre.logLen {
			for j := po + 1 + k; j < pre.logLen; j++ {
				vAssert(vImplies(!conflict, post.terms[j] == pre.terms[j]), "C06.no-conflict-keeps-suffix")
			}
		}
	} else {
		vAssert(post.logLen == po+1+k, "C06.log-ends-with-request")
	}
	// indices stay contiguous
	for i := 0; i < post.logLen; i++ {
		vAssert(n.log.entries[i].Index == post.firstIndex+uint64(i), "C06|INV.log-contiguous")
	}
	// commit index: never backwards (given GA2), never past what was verified to match the sender
	vAssert(vImplies(ga2, post.commit >= pre.commit), "C01|C06|C11.commit-monotone")
	vAssert(post.commit <= vMaxU64(pre.commit, vMinU64(req.LeaderCommit, lastNew)), "C01|C06.commit-within-verified-prefix")
	vAssert(vImplies(ga2, post.commit <= post.lastIndex), "C01|C06|INV.commit<=last")
	vAssert(post.applied == pre.applied, "C01.ae-applied-untouched")
	vCoverIf(post.commit > pre.commit, "commit-advanced")
	// C09.fallback: truncating the configuration in force falls back to the committed one
	if r.configuration != preCfg {
		vCover("config-fallback")
		vAssert(r.configuration == preCommitted, "C09.fallback-to-committed")
	}
}
