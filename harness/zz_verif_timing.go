package raft

import "time"

// vh_Timing: the timing lemma that composes C17.renew / C17.serve / C16.sticky (DESIGN.md C17.timing):
// pure arithmetic over symbolic instants plus the library's default durations.
// A lease renewed at tRecv (leader clock, when the deciding reply is processed) is valid until
// tRecv+lease; every voter counted in that round was contacted at tc in [tSend, tRecv] with
// tRecv-tc <= delay; a voter grants no vote before tc+electionTimeout (C16.sticky).
// If lease+delay < electionTimeout, every instant at which the lease is valid precedes every vote of
// a counted voter - hence (quorum intersection) every later leader's election.

func vh_Timing() {
	lease := vNondetI64("lease")
	et := vNondetI64("electionTimeout")
	delay := vNondetI64("delay")
	tSend := vNondetI64("tSend")
	tc := vNondetI64("tContact")
	tRecv := vNondetI64("tRecv")
	tRead := vNondetI64("tRead")
	tVote := vNondetI64("tVote")
	lim := int64(1) << 40
	for _, x := range []int64{lease, et, delay, tSend, tc, tRecv, tRead, tVote} {
		vAssume(vAnd(x >= 0, x < lim))
	}
	vAssume(vAnd(tSend <= tc, tc <= tRecv))
	vAssume(tRecv-tc <= delay)
	vAssume(lease+delay < et)
	vAssume(tVote >= tc+et)    // C16.sticky: no vote within an election timeout of leader contact
	vAssume(tRead < tRecv+lease) // C17.serve: the lease is valid when the read is served
	// the chain is cut into steps (each step is discharged, then used): bit-blasted 64-bit linear
	// arithmetic does not finish on the whole chain at once
	s1 := tRecv <= tc+delay
	vAssert(s1, "C17.lemma-step1")
	vAssume(s1)
	s2 := tRecv+lease <= tc+delay+lease
	vAssert(s2, "C17.lemma-step2")
	vAssume(s2)
	s3 := tc+delay+lease < tc+et
	vAssert(s3, "C17.lemma-step3")
	vAssume(s3)
	s4 := tRead < tc+et
	vAssert(s4, "C17.lemma-step4")
	vAssume(s4)
	vAssert(tRead < tVote, "C17.lease-valid-instants-precede-any-counted-voters-vote")
	// the defaults leave room for a positive message delay
	vAssert(int64(defaultLeaseDuration) < int64(defaultElectionTimeout), "C17.default-lease-shorter-than-election-timeout")
	vAssert(int64(defaultHeartbeat) < int64(defaultLeaseDuration), "C17.default-heartbeat-renews-lease-in-time")
	// lease arithmetic of the real type: renew at now => valid strictly before now+duration
	l := newLease(time.Duration(lease))
	l.renew()
	vAssert(l.isValid() == (lease > 0), "C17.lease-valid-right-after-renewal")
	l.expiration = vTimeAgo(time.Duration(delay) + time.Duration(1))
	vAssert(!l.isValid(), "C17.lease-invalid-after-expiration")
	vCover("lemma")
}
