package raft

import "time"

// vh_SUB: SubmitOperation for every operation type from an arbitrary node state (L1).
// Obligations: C03.reg, C04.leaderDurable, C05.readIndex (registration side), C18.future.

// vFirstOwnTermIndex returns the index of the first log position (placeholder included) whose term
// is the current term; every entry any earlier leader had acknowledged precedes it.
func vFirstOwnTermIndex(s *vSnap) (uint64, bool) {
	for i := 0; i < s.logLen; i++ {
		if s.terms[i] == s.term {
			return s.firstIndex + uint64(i), true
		}
	}
	return 0, false
}

// vRefCommittedThisTerm is the reference for "an entry of the current term is committed": terms never
// decrease along the log, so this is the case iff the entry at commitIndex (the snapshot boundary included)
// carries the current term.
func vRefCommittedThisTerm(s *vSnap) bool {
	ok := false
	for i := 0; i < s.logLen; i++ {
		ok = vOr(ok, vAnd(s.firstIndex+uint64(i) == s.commit, s.terms[i] == s.term))
	}
	return ok
}

func vh_SUB() {
	ids := []string{"n1", "n2", "n3"}
	// three voters; a cluster of one; one voter with two non-voting members (a cluster being grown, or shrunk)
	members := "all-voters"
	cluster := vChoose("cluster", 3)
	single := cluster != 0 // this node is the only voter: it is a majority of the voters by itself
	switch cluster {
	case 1:
		ids = []string{"n1"}
		vTag("single", "yes")
	case 2:
		members = "sole-voter"
		vTag("single", "with-non-voting-members")
	}
	peers := len(ids) - 1
	n := vBuildNode(vNodeSpec{name: "l", self: "n1", ids: ids, maxLog: vBound("log"), dataLen: 1,
		states: []State{Leader, Follower, PreCandidate, Candidate, Shutdown}, members: members})
	r := n.r
	commitSignals := vSignals(r.commitCond)
	vAssume(n.log.LastTerm() <= r.currentTerm)                              // N1
	vAssume(vImplies(r.state == Leader, n.log.LastTerm() == r.currentTerm)) // a leader's log ends in its own term
	r.operationManager.shouldVerifyQuorum = vNondetBool("shouldVerify")
	kind := vChoose("optype", 4)
	types := []OperationType{Replicated, LinearizableReadOnly, LeaseBasedReadOnly, OperationType(7)}
	opType := types[kind]
	vTagInt("optype", kind)
	data := []byte{vNondetByte("op.byte")}
	pre := vSnapshotNode(n)
	preRep := len(r.operationManager.pendingReplicated)
	preRO := len(r.operationManager.pendingReadOnly)
	r.operationManager.rounds = vNondetU64("rounds")
	vAssume(r.operationManager.rounds < vMaxIdx)
	preRounds := r.operationManager.rounds
	shouldVerify := r.operationManager.shouldVerifyQuorum

	fut := r.SubmitOperation(data, opType, time.Second)
	durableLen := len(n.log.entries) // the log double publishes entries only after Sync
	vDrain()
	post := vSnapshotNode(n)
	f := fut.(*future[OperationResponse])
	if r.state != Shutdown {
		vCheckInv(n, true, true)
	}
	vAssert(!vHeld(&r.mu), "C18|C20.lock-released")
	vAssert(vAnd(post.term == pre.term, vAnd(post.state == pre.state, post.votedFor == pre.votedFor)), "C02.submit-keeps-role-and-term")
	vAssert(vAnd(post.commit == pre.commit, post.applied == pre.applied), "C01.submit-keeps-commit")

	if kind == 3 {
		vCover("invalid-type")
		vAssert(len(f.responseCh) == 1, "C18.invalid-type-future-resolved")
		vAssert(post.logLen == pre.logLen, "C03.invalid-type-no-append")
		return
	}
	if pre.state != Leader {
		vCover("not-leader")
		vAssert(len(f.responseCh) == 1, "C03|C18.non-leader-future-resolved")
		if len(f.responseCh) == 1 {
			res := <-f.responseCh
			vAssert(res.Error() == ErrNotLeader, "C03.non-leader-gets-ErrNotLeader")
		}
		vAssert(post.logLen == pre.logLen, "C03.non-leader-no-append")
		vAssert(vAnd(len(r.operationManager.pendingReplicated) == preRep, len(r.operationManager.pendingReadOnly) == preRO), "C03.non-leader-registers-nothing")
		vAssert(len(n.tr.sent) == 0, "C02.non-leader-sends-nothing")
		return
	}
	if kind == 0 {
		vCover("replicated")
		vAssert(post.logLen == pre.logLen+1, "C03.exactly-one-entry-appended")
		if post.logLen != pre.logLen+1 {
			return
		}
		e := n.log.entries[post.logLen-1]
		vAssert(vAnd(e.Index == pre.lastIndex+1, e.Term == pre.term), "C03.entry-at-next-index-in-current-term")
		vAssert(vAnd(e.EntryType == OperationEntry, vAnd(len(e.Data) == 1, e.Data[0] == data[0])), "C03|C19.entry-carries-the-operation")
		vAssert(durableLen == post.logLen, "C04.appended-and-synced-before-return")
		ch, ok := r.operationManager.pendingReplicated[e.Index]
		vAssert(vAnd(ok, ch == f.responseCh), "C03|C18.future-registered-under-entry-index")
		vAssert(len(r.operationManager.pendingReplicated) == preRep+1, "C03.one-registration")
		vAssert(len(f.responseCh) == 0, "C03.future-not-resolved-before-apply")
		for i := 0; i < pre.logLen; i++ {
			vAssert(post.terms[i] == pre.terms[i], "C01|C07.leader-append-only")
		}
		// replication is attempted towards every other member, with the entry already durable
		vAssert(n.tr.sentCount("AE", true) == peers, "C04.replication-triggered-to-all-peers")
		if single {
			// the entry is on a majority of the voters the moment it is durable here: nobody else's reply may
			// ever come (non-voting members can be down), so the commit loop has to be woken by this step
			vAssertEngine(vSignals(r.commitCond) > commitSignals, "C15.sole-voter-commits-without-waiting-for-replies", "SubmitOperation on the only voter did not signal the commit loop")
			vCover("sole-voter-replicated")
		}
		return
	}
	vCover("read-only")
	vAssert(post.logLen == pre.logLen, "C05.read-does-not-append")
	vAssert(len(r.operationManager.pendingReadOnly) == preRO+1, "C05|C18.read-registered")
	vAssert(len(f.responseCh) == 0, "C05.read-not-answered-at-submit")
	for op, ch := range r.operationManager.pendingReadOnly {
		if ch != f.responseCh {
			continue
		}
		vAssert(vAnd(op.OperationType == opType, vAnd(len(op.Bytes) == 1, op.Bytes[0] == data[0])), "C05|C19.read-carries-the-operation")
		vAssert(vOr(!op.quorumVerified, single && kind == 1 && shouldVerify), "C05.read-starts-unverified")
		// everything acknowledged before this read was invoked is at or below readIndex:
		// (a) readIndex >= commitIndex at submission; (b) readIndex reaches the leader's first own-term
		// entry, which follows every entry an earlier leader acknowledged
		vAssert(op.readIndex >= pre.commit, "C05|C17.readIndex>=commitIndex")
		own, has := vFirstOwnTermIndex(&pre)
		vAssert(has, "INV.leader-log-has-own-term-entry")
		vAssert(op.readIndex >= own, "C05|C17.readIndex-covers-earlier-leaders-acks")
		vAssert(op.readIndex <= pre.lastIndex, "C05.readIndex<=lastIndex")
		// only a confirmation round that starts after the read was registered may verify it
		vAssert(op.round == preRounds, "C05.read-remembers-rounds-started-before-it")
	}
	if kind == 1 {
		vCover("linearizable-read")
		if shouldVerify {
			vAssert(vAnd(r.operationManager.rounds == preRounds+1, n.tr.sentCount("AE", true) == peers), "C05.read-starts-a-confirmation-round")
			if single {
				// a single voter is its own majority: the round it just started confirms the read at once
				for op, ch := range r.operationManager.pendingReadOnly {
					if ch == f.responseCh {
						vAssert(op.quorumVerified, "C15.sole-voter-read-verified-by-its-own-round")
					}
				}
			}
		}
	}
}
