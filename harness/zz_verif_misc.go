package raft

import "time"

// vh_Boot: Bootstrap on a freshly constructed node and on a node that already has state (L1).
// vh_Future: a future yields one result, the same on every Await; respond never blocks (C03.once, C18.future).

func vh_Boot() {
	vOnPanic("C18.nopanic")
	r, tr, _, lg := vNewStoppedNode()
	withSelf := vNondetBool("cfg.has-self")
	cfg := map[string]string{"n2": "addr-n2", "n3": "addr-n3"}
	if withSelf {
		cfg["n1"] = "addr-n1"
	}
	second := vNondetBool("second-bootstrap")
	if second {
		_ = r.Bootstrap(map[string]string{"n1": "addr-n1"})
	}
	preLen := len(lg.entries)
	err := r.Bootstrap(cfg)
	if !withSelf || second {
		vCover("refused")
		vAssert(err != nil, "C09|C18.bootstrap-refused-without-self-or-with-existing-state")
		vAssert(len(lg.entries) == preLen, "C09.refused-bootstrap-appends-nothing")
		return
	}
	vCover("bootstrapped")
	vAssert(err == nil, "C18.bootstrap-succeeds")
	vAssert(len(lg.entries) == 2, "C09.bootstrap-appends-one-entry")
	if len(lg.entries) != 2 {
		return
	}
	e := lg.entries[1]
	vAssert(vAnd(e.Index == 1, vAnd(e.Term == 1, e.EntryType == ConfigurationEntry)), "C09.bootstrap-entry-is-configuration-at-index-one")
	c, derr := tr.DecodeConfiguration(e.Data)
	vAssert(derr == nil, "C09|C19.bootstrap-entry-decodes")
	if derr != nil {
		return
	}
	vAssert(vAnd(c.Index == 1, len(c.Members) == 3), "C09.bootstrap-configuration-has-all-members")
	for id := range cfg {
		vAssert(vAnd(c.Members[id] == cfg[id], c.IsVoter[id]), "C09.bootstrap-members-are-voters")
	}
	vAssert(r.configuration != nil && r.configuration.Index == 1, "C09.bootstrap-configuration-in-force")
	// the bootstrapped node starts as a follower that can campaign
	vAssert(r.Start() == nil, "C18.start-succeeds")
	vAssert(r.Status().State == Follower, "C18.started-node-is-follower")
	r.Stop()
}

func vh_Future() {
	vOnPanic("C18.nopanic")
	f := newFuture[OperationResponse](time.Hour)
	n := vChoose("responses", 3)
	for i := 0; i < n; i++ {
		// respond never blocks, whatever is already in the channel
		respond(f.responseCh, OperationResponse{Operation: Operation{LogIndex: uint64(i + 1)}}, nil)
	}
	vAssert(len(f.responseCh) == vMinInt(n, 1), "C03|C18.future-holds-at-most-one-result")
	if n == 0 {
		vCover("unresolved")
		return
	}
	r1 := f.Await()
	r2 := f.Await()
	vAssert(r1 == r2, "C03|C18.future-yields-the-same-result-on-every-await")
	if r1.Error() == nil {
		vCover("resolved")
		vAssert(r1.Success().Operation.LogIndex == 1, "C03.future-yields-the-first-result")
	} else {
		vCover("timed-out")
		vAssert(r1.Error() == ErrTimeout, "C18.future-times-out-with-ErrTimeout")
	}
	// respond on a nil channel (a follower applying a configuration entry) is a no-op
	var nilCh chan Result[Configuration]
	respond(nilCh, Configuration{}, nil)
}

func vMinInt(a, b int) int {
	if a < b {
		return a
	}
	return b
}
