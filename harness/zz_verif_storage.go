package raft

// Storage harnesses (binding B2): the real persistentLog / persistentStateStorage /
// persistentSnapshotStorage / fileutil.RemoveTmpFiles run over symgo's file-system model; a crash is a
// solver-decided fork before every mutating file operation and inside every write (byte prefix).
// Natively (replay) the post-crash image computed by the engine is materialised with the real codecs
// and the same recovery code + assertions run on it.

import (
	"encoding/binary"
	"encoding/json"
	"fmt"
	"io/fs"
	"os"
	"path/filepath"
	"strconv"
	"time"

	pb "github.com/jmsadair/raft/internal/protobuf"
	"google.golang.org/protobuf/proto"
)

// ---- objects the engine hands to the code under test for os.FileInfo / os.DirEntry

type vFileInfo struct {
	name string
	dir  bool
}

func (i *vFileInfo) Name() string       { return i.name }
func (i *vFileInfo) Size() int64        { return 0 }
func (i *vFileInfo) Mode() fs.FileMode  { return 0 }
func (i *vFileInfo) ModTime() time.Time { return time.Time{} }
func (i *vFileInfo) IsDir() bool        { return i.dir }
func (i *vFileInfo) Sys() any           { return nil }

type vDirEntry struct {
	name string
	dir  bool
}

func (e *vDirEntry) Name() string               { return e.name }
func (e *vDirEntry) IsDir() bool                { return e.dir }
func (e *vDirEntry) Type() fs.FileMode          { return 0 }
func (e *vDirEntry) Info() (fs.FileInfo, error) { return &vFileInfo{e.name, e.dir}, nil }

// ---- native side of the storage intrinsics

func vUseVFS()              {}
func vCrashEnable(on bool)  {}
func vMisparsed() bool      { return false }
func vSyncInt(name string, x int) int {
	return int(vModelU64(name))
}

// vRunUntilCrash: the engine runs f and reports whether a crash fork ended it. Natively, a run that the
// model says did not crash is executed for real (so assertions inside it replay too); a run that crashed
// is not executed - the post-crash image the engine computed is materialised by vStorageRoot instead.
func vRunUntilCrash(f func()) bool {
	if vPeekU64("crashed") == 0 {
		f()
	}
	return false
}

// vPeekU64 reads a model value without consuming an occurrence.
func vPeekU64(name string) uint64 {
	v, ok := vRT.file.Model[name]
	if !ok {
		return 0
	}
	if s, isS := v.(string); isS {
		u, _ := strconv.ParseUint(s, 10, 64)
		return u
	}
	return 0
}

// vStorageRoot returns the directory the storage code works in.
func vStorageRoot() string {
	if vSymbolic() {
		return "/data"
	}
	root := vNativeDir()
	if vPeekU64("crashed") == 1 {
		vMaterialize(root)
	}
	return filepath.Join(root, "data")
}

func vImgU64(v any) uint64 {
	switch x := v.(type) {
	case string:
		u, err := strconv.ParseUint(x, 10, 64)
		if err != nil {
			i, _ := strconv.ParseInt(x, 10, 64)
			return uint64(i)
		}
		return u
	case float64:
		return uint64(x)
	case map[string]any:
		return vImgU64(x["value"])
	}
	return 0
}

func vImgBytes(v any) []byte {
	l, ok := v.([]any)
	if !ok {
		return nil
	}
	b := make([]byte, len(l))
	for i := range l {
		b[i] = byte(vImgU64(l[i]))
	}
	return b
}

// vImgLin evaluates a value that the engine exported as const + sum of codec output lengths, using the
// real lengths; other values are literal.
func vImgLin(v any, lens map[string]int) uint64 {
	m, ok := v.(map[string]any)
	if !ok {
		return vImgU64(v)
	}
	lin, ok := m["lin"].(map[string]any)
	if !ok {
		return vImgU64(m["value"])
	}
	total := vImgU64(lin["const"])
	if vs, ok := lin["vars"].([]any); ok {
		for _, n := range vs {
			total += uint64(lens[n.(string)])
		}
	}
	return total
}

func vImgEncode(codec string, msg map[string]any, lens map[string]int) []byte {
	switch codec {
	case "proto:*github.com/jmsadair/raft/internal/protobuf.LogEntry":
		e := &pb.LogEntry{Index: vImgU64(msg["Index"]), Term: vImgU64(msg["Term"]), Data: vImgBytes(msg["Data"]),
			Offset: int64(vImgLin(msg["Offset"], lens)), EntryType: pb.LogEntry_LogEntryType(int32(vImgU64(msg["EntryType"])))}
		b, _ := proto.Marshal(e)
		return b
	case "proto:*github.com/jmsadair/raft/internal/protobuf.StorageState":
		s, _ := msg["VotedFor"].(string)
		b, _ := proto.Marshal(&pb.StorageState{Term: vImgU64(msg["Term"]), VotedFor: s})
		return b
	case "json":
		md := SnapshotMetadata{LastIncludedIndex: vImgU64(msg["LastIncludedIndex"]), LastIncludedTerm: vImgU64(msg["LastIncludedTerm"]), Configuration: vImgBytes(msg["Configuration"])}
		b, _ := json.Marshal(&md)
		return b
	}
	panic("vMaterialize: unknown codec " + codec)
}

// vMaterialize writes the engine's post-crash image below root using the real codecs. Values that the
// engine expressed in terms of codec output lengths (record offsets, length headers) are recomputed
// with the real lengths (fixpoint, since a length depends on the varint size of the offset).
func vMaterialize(root string) {
	img, _ := vRT.file.Image.(map[string]any)
	nodes, _ := img["nodes"].([]any)
	lens := map[string]int{}
	for iter := 0; iter < 6; iter++ {
		changed := false
		for _, nv := range nodes {
			n := nv.(map[string]any)
			if n["dir"] == true {
				continue
			}
			cs, _ := n["chunks"].([]any)
			for _, cv := range cs {
				c := cv.(map[string]any)
				if c["kind"] == "blob" {
					msg, _ := c["msg"].(map[string]any)
					b := vImgEncode(c["codec"].(string), msg, lens)
					if name, ok := c["lenVar"].(string); ok && lens[name] != len(b) {
						lens[name] = len(b)
						changed = true
					}
				}
			}
		}
		if !changed {
			break
		}
	}
	for _, nv := range nodes {
		n := nv.(map[string]any)
		path := filepath.Join(root, n["path"].(string))
		if n["dir"] == true {
			if err := os.MkdirAll(path, 0o777); err != nil {
				panic(err)
			}
			continue
		}
		if err := os.MkdirAll(filepath.Dir(path), 0o777); err != nil {
			panic(err)
		}
		var out []byte
		cs, _ := n["chunks"].([]any)
		for _, cv := range cs {
			c := cv.(map[string]any)
			switch c["kind"] {
			case "hdr":
				val := int32(vImgU64(c["value"]))
				if name, ok := c["lenOf"].(string); ok {
					val = int32(lens[name])
				}
				var h [4]byte
				binary.BigEndian.PutUint32(h[:], uint32(val))
				out = append(out, h[:int(vImgU64(c["bytes"]))]...)
			case "blob":
				msg, _ := c["msg"].(map[string]any)
				b := vImgEncode(c["codec"].(string), msg, lens)
				if c["full"] != true {
					// a strict, non-empty prefix of the payload
					// the model's cut is relative to the model's length; map it onto the real length
					// (VERIF_CUT_MODE selects another strict prefix of the same class: the longest / the shortest)
					cut := 1
					if ml := vImgU64(c["modelLen"]); ml > 0 {
						cut = int(vImgU64(c["avail"]) * uint64(len(b)) / ml)
					}
					switch os.Getenv("VERIF_CUT_MODE") {
					case "max":
						cut = len(b) - 1
					case "min":
						cut = 1
					}
					if cut < 1 {
						cut = 1
					}
					if cut >= len(b) {
						cut = len(b) - 1
					}
					if cut < 0 {
						cut = 0
					}
					b = b[:cut]
				}
				out = append(out, b...)
			case "raw":
				out = append(out, vImgBytes(c["data"])...)
			}
		}
		if err := os.WriteFile(path, out, 0o666); err != nil {
			panic(err)
		}
	}
	if os.Getenv("VERIF_REPLAY_VERBOSE") != "" {
		fmt.Println("materialised image under", root)
	}
}

// ---------------------------------------------------------------------------
// C12: the file-backed log

type vLogOp struct {
	kind    int // 0 append, 1 truncate, 2 compact, 3 discard, 4 close+reopen
	entries []*LogEntry
	pos     int
	index   uint64
	term    uint64
}

func vCloneEntries(es []*LogEntry) []*LogEntry { return append([]*LogEntry{}, es...) }

// vExpectAfter is the reference semantics of one log operation on the list of entries
// (placeholder first); it never looks at files.
func vExpectAfter(es []*LogEntry, op *vLogOp) []*LogEntry {
	switch op.kind {
	case 0:
		return append(vCloneEntries(es), op.entries...)
	case 1:
		return vCloneEntries(es[:op.pos])
	case 2:
		return vCloneEntries(es[op.pos:])
	case 3:
		return []*LogEntry{{Index: op.index, Term: op.term}}
	}
	return vCloneEntries(es)
}

func vSameEntry(a, b *LogEntry) bool {
	same := vAnd(vAnd(a.Index == b.Index, a.Term == b.Term), a.EntryType == b.EntryType)
	if len(a.Data) != len(b.Data) {
		return false
	}
	for i := range a.Data {
		same = vAnd(same, a.Data[i] == b.Data[i])
	}
	return same
}

func vSameEntries(got, want []*LogEntry) bool {
	if len(got) != len(want) {
		return false
	}
	same := true
	for i := range got {
		same = vAnd(same, vSameEntry(got[i], want[i]))
	}
	return same
}

func vGenLogOp(name string, cur []*LogEntry) *vLogOp {
	op := &vLogOp{}
	kinds := 5
	if len(cur) < 2 {
		kinds = 1 + 0 // only append makes sense on an empty log; discard/close handled below
	}
	if len(cur) < 2 {
		// append, discard or close on a log that holds only the placeholder
		k := vChoose(name+".kind", 3)
		op.kind = []int{0, 3, 4}[k]
	} else {
		op.kind = vChoose(name+".kind", kinds)
	}
	last := cur[len(cur)-1].Index
	switch op.kind {
	case 0:
		n := 1 + vChoose(name+".batch", vBound("batch"))
		shape := ""
		for i := 0; i < n; i++ {
			e := &LogEntry{Index: last + 1 + uint64(i), Term: vNondetU64(name + ".term"), EntryType: LogEntryType(vNondetU32(name + ".type"))}
			if vNondetBool(name + ".hasData") {
				e.Data = vSymBytes(name+".data", 16)
				shape += "d"
			} else {
				shape += "n"
			}
			vAssume(e.Term >= 1) // a real entry never encodes to zero bytes
			op.entries = append(op.entries, e)
		}
		vTag(name+".payloads", shape)
	case 1, 2:
		op.pos = 1 + vChoose(name+".pos", len(cur)-1)
		op.index = cur[op.pos].Index
	case 3:
		op.index = vNondetU64(name + ".index")
		op.term = vNondetU64(name + ".term")
		vAssume(vAnd(op.index >= 1, op.index < vMaxIdx))
	}
	return op
}

func vApplyLogOp(l *persistentLog, op *vLogOp) error {
	switch op.kind {
	case 0:
		return l.AppendEntries(op.entries)
	case 1:
		return l.Truncate(op.index)
	case 2:
		return l.Compact(op.index)
	case 3:
		return l.DiscardEntries(op.index, op.term)
	default:
		if err := l.Close(); err != nil {
			return err
		}
		if err := l.Open(); err != nil {
			return err
		}
		return l.Replay()
	}
}

func vh_LogCrash() {
	vOnFatal("C12.no-fatal")
	vOnPanic("C12|C18.nopanic")
	vUseVFS()
	nops := vBound("logops")
	// describe the operations first (pure), then run them for real until the crash
	exp := []*LogEntry{{}}
	var ops []*vLogOp
	var states [][]*LogEntry // states[i] = expected entries after i operations
	states = append(states, exp)
	for i := 0; i < nops; i++ {
		op := vGenLogOp([]string{"op0", "op1", "op2", "op3", "op4"}[i], states[i])
		ops = append(ops, op)
		states = append(states, vExpectAfter(states[i], op))
	}
	root := vStorageRoot()
	done := 0 // completed steps: 1 = log created, 1+k = k operations returned
	var opErr error
	crashed := vRunUntilCrash(func() {
		vCrashEnable(true)
		lg, err := NewLog(root)
		if err != nil {
			opErr = err
			return
		}
		l := lg.(*persistentLog)
		if opErr = l.Open(); opErr != nil {
			return
		}
		if opErr = l.Replay(); opErr != nil {
			return
		}
		vAssertEngine(!vFileDirty(root+"/log/log.bin"), "C04|C12.log-file-synced-before-operation-returns", "placeholder written without Sync")
		done = 1
		for i := range ops {
			if opErr = vApplyLogOp(l, ops[i]); opErr != nil {
				return
			}
			// memory agrees with the reference after every completed operation
			vAssert(vSameEntries(l.entries, states[i+1]), "C12.memory-matches-reference")
			// the operation asked for durability before it returned (and before it published to memory)
			vAssertEngine(!vFileDirty(root+"/log/log.bin"), "C04|C12.log-file-synced-before-operation-returns", "log.bin written or truncated without a following Sync")
			vAssertEngine(!vRenamedUnsynced(), "C04|C12.temporary-file-synced-before-rename", "a temporary file was renamed over log.bin without a Sync")
			done = 2 + i
		}
	})
	vAssert(opErr == nil, "C12.operations-succeed")
	done = vSyncInt("done", done)
	cr := 0
	if crashed {
		cr = 1
	}
	crashed = vSyncInt("crashed", cr) == 1
	vTagInt("done", done)
	vTagBool("crashed", crashed)
	if crashed && done >= 1 && done-1 < len(ops) {
		vTagInt("inflight-kind", ops[done-1].kind)
	}

	// ---- recovery: first attempt must succeed
	lg2, err := NewLog(root)
	vAssert(err == nil, "C12|C14.reopen-newlog-succeeds")
	if err != nil {
		return
	}
	l2 := lg2.(*persistentLog)
	vAssert(l2.Open() == nil, "C12|C14.reopen-open-succeeds")
	err = l2.Replay()
	vAssert(err == nil, "C12|C14.reopen-replay-succeeds")
	if err != nil {
		return
	}
	vCover("reopened")
	// ---- recovered entries = entries of all returned operations, optionally followed by a prefix of the
	// in-flight append (or: the in-flight truncate/compact/discard took effect or not)
	got := l2.entries
	var ok bool
	if done == 0 {
		ok = vSameEntries(got, states[0])
	} else {
		before := states[done-1]
		ok = vSameEntries(got, before)
		if crashed && done-1 < len(ops) {
			op := ops[done-1]
			if op.kind == 0 {
				for k := 1; k <= len(op.entries); k++ {
					ok = vOr(ok, vSameEntries(got, append(vCloneEntries(before), op.entries[:k]...)))
				}
			} else {
				ok = vOr(ok, vSameEntries(got, states[done]))
			}
		}
	}
	vAssert(ok, "C12.recovered-entries-are-returned-operations-plus-inflight-prefix")
	// every record carries the file offset it was written at (Truncate relies on it): offsets read back
	// strictly increasing, the first entry after the 4-byte placeholder record not before offset 4
	vAssert(got[0].Offset == 0, "C12|C19.first-record-at-offset-zero")
	for i := 1; i < len(got); i++ {
		vAssert(got[i].Offset > got[i-1].Offset, "C12|C19.record-offsets-read-back-increasing")
	}
	if len(got) > 1 {
		vAssert(got[1].Offset >= 4, "C12|C19.record-offsets-read-back-increasing")
	}
	vAssert(!vMisparsed(), "C12.framing-intact")
	vCoverIf(crashed, "crashed-and-reopened")
	// ---- C12.again: the reopened log keeps working: one more append, truncate it away again, reopen
	base := vCloneEntries(got)
	// a minimal record (shorter than any record with a payload): what is left behind it, if anything,
	// is what a torn append leaves
	extra := &LogEntry{Index: got[len(got)-1].Index + 1, Term: vNondetU64("again.term")}
	vAssume(vAnd(extra.Term >= 1, extra.Term < 128))
	vAssert(l2.AppendEntries([]*LogEntry{extra}) == nil, "C12.append-after-reopen")
	vAssert(l2.Close() == nil, "C12.close-after-reopen")
	// second reopen: the acknowledged append is there and nothing else
	lg3, err := NewLog(root)
	vAssert(err == nil, "C12.second-reopen-newlog-succeeds")
	if err != nil {
		return
	}
	l3 := lg3.(*persistentLog)
	vAssert(l3.Open() == nil, "C12.second-reopen-open-succeeds")
	err = l3.Replay()
	vAssert(err == nil, "C12.second-reopen-replay-succeeds")
	if err != nil {
		return
	}
	vAssert(vSameEntries(l3.entries, append(vCloneEntries(base), extra)), "C04|C12|C14|C19.second-reopen-entries")
	vAssert(!vMisparsed(), "C04|C12|C14|C19.framing-intact-after-second-cycle")
	// third cycle: truncate the new entry away again, append another one in its place, reopen
	vAssert(l3.Truncate(extra.Index) == nil, "C12.truncate-after-reopen")
	extra2 := &LogEntry{Index: extra.Index, Term: vNondetU64("again.term2")}
	vAssume(extra2.Term >= 1)
	vAssert(l3.AppendEntries([]*LogEntry{extra2}) == nil, "C12.append-after-truncate")
	vAssert(l3.Close() == nil, "C12.close-after-truncate")
	lg4, err := NewLog(root)
	vAssert(err == nil, "C12.third-reopen-newlog-succeeds")
	if err != nil {
		return
	}
	l4 := lg4.(*persistentLog)
	vAssert(l4.Open() == nil, "C12.third-reopen-open-succeeds")
	err = l4.Replay()
	vAssert(err == nil, "C12.third-reopen-replay-succeeds")
	if err != nil {
		return
	}
	vAssert(vSameEntries(l4.entries, append(vCloneEntries(base), extra2)), "C04|C12|C14|C19.third-reopen-entries")
	vAssert(!vMisparsed(), "C04|C12|C14|C19.framing-intact-after-third-cycle")
	vCover("second-cycle")
	// fourth cycle: cut away a record that was written before the crash and has only ever been read back
	// (Truncate positions the cut by the offset stored inside the record), put another in its place, reopen
	if len(base) > 1 {
		last := base[len(base)-1]
		vAssert(l4.Truncate(last.Index) == nil, "C12|C14.truncate-replayed-record")
		extra3 := &LogEntry{Index: last.Index, Term: vNondetU64("again.term3")}
		vAssume(extra3.Term >= 1)
		vAssert(l4.AppendEntries([]*LogEntry{extra3}) == nil, "C12|C14.append-after-truncating-replayed-record")
		vAssert(l4.Close() == nil, "C12.close-after-fourth-cycle")
		lg5, err := NewLog(root)
		vAssert(err == nil, "C12|C14.fourth-reopen-newlog-succeeds")
		if err != nil {
			return
		}
		l5 := lg5.(*persistentLog)
		vAssert(l5.Open() == nil, "C12|C14.fourth-reopen-open-succeeds")
		err = l5.Replay()
		vAssert(err == nil, "C06|C12|C14.fourth-reopen-replay-succeeds")
		if err != nil {
			return
		}
		vAssert(vSameEntries(l5.entries, append(vCloneEntries(base[:len(base)-1]), extra3)), "C04|C06|C12|C14|C19.entries-after-truncating-replayed-record")
		vAssert(!vMisparsed(), "C04|C06|C12|C14|C19.framing-intact-after-truncating-replayed-record")
		vCover("fourth-cycle")
	}
}

// ---------------------------------------------------------------------------
// C13: term/vote storage

func vh_StateCrash() {
	vOnFatal("C13.no-fatal")
	vOnPanic("C13|C18.nopanic")
	vUseVFS()
	ids := []string{"", "n1", "nœud-2"}
	nsets := 1 + vChoose("nsets", 2)
	terms := make([]uint64, nsets)
	votes := make([]string, nsets)
	for i := 0; i < nsets; i++ {
		terms[i] = vNondetU64("set.term")
		votes[i] = vNondetStr("set.vote", ids...)
		// (0, "") included: its record has an empty payload (proto3 default values encode to zero bytes)
	}
	root := vStorageRoot()
	done := 0
	var opErr error
	crashed := vRunUntilCrash(func() {
		vCrashEnable(true)
		ss, err := NewStateStorage(root)
		if err != nil {
			opErr = err
			return
		}
		done = 1
		for i := 0; i < nsets; i++ {
			if opErr = ss.SetState(terms[i], votes[i]); opErr != nil {
				return
			}
			// read-your-write on the live object
			t, v, err := ss.State()
			vAssert(vAnd(err == nil, vAnd(t == terms[i], v == votes[i])), "C13|C19.state-reads-back-what-was-set")
			done = 2 + i
		}
	})
	vAssert(opErr == nil, "C13.operations-succeed")
	done = vSyncInt("done", done)
	cr := 0
	if crashed {
		cr = 1
	}
	crashed = vSyncInt("crashed", cr) == 1
	vTagInt("done", done)
	vTagBool("crashed", crashed)
	// ---- reopen: first attempt succeeds and yields the last returned value or the one in flight
	ss2, err := NewStateStorage(root)
	vAssert(err == nil, "C13|C14.state-storage-reopens-at-first-attempt")
	if err != nil {
		return
	}
	t, v, err := ss2.State()
	vAssert(err == nil, "C13|C14.state-readable-after-crash")
	if err != nil {
		return
	}
	vCover("reopened")
	var lastT uint64
	lastV := ""
	if done >= 2 {
		lastT, lastV = terms[done-2], votes[done-2]
	}
	ok := vAnd(t == lastT, v == lastV)
	if crashed && done >= 1 && done-1 < nsets {
		ok = vOr(ok, vAnd(t == terms[done-1], v == votes[done-1]))
	}
	vAssert(ok, "C08|C13.recovered-state-is-last-returned-or-in-flight")
	vCoverIf(crashed, "crashed-and-reopened")
	// the reopened storage keeps working
	nt := vNondetU64("again.term")
	vAssume(nt >= 1)
	vAssert(ss2.SetState(nt, "n1") == nil, "C13.set-after-reopen")
	ss3, err := NewStateStorage(root)
	vAssert(err == nil, "C13.second-reopen")
	if err == nil {
		t3, v3, err3 := ss3.State()
		vAssert(vAnd(err3 == nil, vAnd(t3 == nt, v3 == "n1")), "C13|C19.second-reopen-state")
	}
}

// ---------------------------------------------------------------------------
// C13: snapshot storage

type vSnapPlan struct {
	index  uint64
	term   uint64
	conf   byte
	data   []byte
	finish int // 0 close, 1 discard, 2 leave open
}

// vCheckNewest asserts that SnapshotFile() returns the most recent of plans[:upto] that was closed.
func vCheckNewest(st SnapshotStorage, plans []*vSnapPlan, upto int, label string) {
	want := -1
	for i := 0; i < upto; i++ {
		if plans[i].finish == 0 {
			want = i
		}
	}
	f, err := st.SnapshotFile()
	vAssert(err == nil, label)
	if err != nil {
		return
	}
	if f == nil {
		vAssert(want == -1, label)
		return
	}
	vAssert(want >= 0, label)
	if want >= 0 {
		md := f.Metadata()
		vAssert(vAnd(md.LastIncludedIndex == plans[want].index, md.LastIncludedTerm == plans[want].term), label)
	}
	_ = f.Close()
}

func vh_SnapCrash() {
	vOnFatal("C13.no-fatal")
	vOnPanic("C13|C18.nopanic")
	vUseVFS()
	nsnaps := 1 + vChoose("nsnaps", vBound("snaps"))
	plans := make([]*vSnapPlan, nsnaps)
	for i := range plans {
		p := &vSnapPlan{index: vNondetU64("snap.index"), term: vNondetU64("snap.term"), conf: vNondetByte("snap.conf"), finish: vChoose("snap.finish", 3)}
		p.data = vSymBytes("snap.byte", vChoose("snap.len", 3))
		plans[i] = p
	}
	root := vStorageRoot()
	closed := 0 // number of plans whose writer was closed successfully (in order)
	step := 0
	var opErr error
	crashed := vRunUntilCrash(func() {
		vCrashEnable(true)
		st, err := NewSnapshotStorage(root)
		if err != nil {
			opErr = err
			return
		}
		for i, p := range plans {
			f, err := st.NewSnapshotFile(p.index, p.term, []byte{p.conf})
			if err != nil {
				opErr = err
				return
			}
			if len(p.data) > 0 {
				if _, opErr = f.Write(p.data); opErr != nil {
					return
				}
			}
			// while this writer is still open, the storage hands out the newest snapshot whose writer was
			// closed - never the one being written
			vCheckNewest(st, plans, i, "C13.open-writer-is-not-handed-out")
			switch p.finish {
			case 0:
				if opErr = f.Close(); opErr != nil {
					return
				}
			case 1:
				if opErr = f.Discard(); opErr != nil {
					return
				}
			}
			step = i + 1
		}
	})
	vAssert(opErr == nil, "C13.operations-succeed")
	step = vSyncInt("step", step)
	cr := 0
	if crashed {
		cr = 1
	}
	crashed = vSyncInt("crashed", cr) == 1
	_ = closed
	vTagInt("step", step)
	vTagBool("crashed", crashed)
	// the most recent snapshot whose writer was closed successfully
	want := -1
	for i := 0; i < step; i++ {
		if plans[i].finish == 0 {
			want = i
		}
	}
	// the close in flight may or may not have taken effect
	alt := want
	if crashed && step < nsnaps && plans[step].finish == 0 {
		alt = step
	}
	// ---- reopen at first attempt
	st2, err := NewSnapshotStorage(root)
	vAssert(err == nil, "C13|C14.snapshot-storage-reopens-at-first-attempt")
	if err != nil {
		return
	}
	f, err := st2.SnapshotFile()
	vAssert(err == nil, "C13|C14.newest-snapshot-opens")
	if err != nil {
		return
	}
	vCover("reopened")
	vCoverIf(crashed, "crashed-and-reopened")
	if f == nil {
		vAssert(want == -1, "C13.closed-snapshot-not-lost")
		return
	}
	vCover("snapshot-found")
	md := f.Metadata()
	buf := make([]byte, 4)
	n, _ := f.Read(buf)
	match := func(i int) bool {
		if i < 0 {
			return false
		}
		p := plans[i]
		ok := vAnd(vAnd(md.LastIncludedIndex == p.index, md.LastIncludedTerm == p.term), vAnd(len(md.Configuration) == 1, n == len(p.data)))
		if len(md.Configuration) == 1 {
			ok = vAnd(ok, md.Configuration[0] == p.conf)
		}
		for k := 0; k < n && k < len(p.data); k++ {
			ok = vAnd(ok, buf[k] == p.data[k])
		}
		return ok
	}
	vAssert(vOr(match(want), vAnd(alt != want, match(alt))), "C13|C19.newest-closed-snapshot-complete-with-matching-metadata")
	vAssert(want >= 0 || alt >= 0, "C13.never-a-partially-written-snapshot")
}
