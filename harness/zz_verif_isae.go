package raft

// vh_ISAE: a complete, real InstallSnapshot on the restore path (the boundary entry is absent from the log or
// conflicts) composed with a real AppendEntries that arrives while the node lock is released around
// StateMachine.Restore (L2: two real handlers of one node in one symbolic run). A restore can take long; a leader
// change in the meantime is enough for a different leader to probe the node (its rejection hints lead the new leader
// to the snapshot boundary the node already announces).
// Obligation (C04.followerDurable / C06 / C11): whatever the node acknowledged with Success while the installation was
// in progress is still stored when the installation has finished - covered by the snapshot or present in the log.

func vh_ISAE() {
	ids := []string{"n1", "n2"}
	n := vBuildNode(vNodeSpec{name: "a", self: "n1", ids: ids, maxLog: vBound("log"), dataLen: 1, snap: true,
		states: []State{Follower}, members: "all-voters"})
	r := n.r
	vSetContact(r, "a")
	n.fsm.through = r.lastApplied
	vAssume(n.log.LastTerm() <= r.currentTerm) // N1
	cfgData, _ := n.tr.EncodeConfiguration(r.configuration)
	L := vNondetU64("is.label")
	vAssume(vAnd(L > r.commitIndex, L < vMaxIdx))
	req := &InstallSnapshotRequest{LeaderID: "n2", Term: r.currentTerm, LastIncludedIndex: L, LastIncludedTerm: vNondetU64("is.labelTerm"),
		Configuration: cfgData, Offset: 0, Done: true}
	vAssume(req.LastIncludedTerm <= r.currentTerm)
	var b [8]byte
	for i := 0; i < 8; i++ {
		b[i] = byte(L >> (8 * uint(i)))
	}
	req.Bytes = b[:]
	// restore path: the boundary entry is absent or conflicts
	if bt, ok := vTermAtSym(&vSnap{firstIndex: n.log.entries[0].Index, lastIndex: n.log.LastIndex(), logLen: len(n.log.entries), terms: vTermsOf(n.log)}, L); ok {
		vAssume(bt != req.LastIncludedTerm)
	}
	// the request some leader (of the same or a newer term) sends meanwhile
	ae := vBuildAERequest("ae", 1)
	ae.LeaderID = "n2"
	vAssume(ae.Term >= r.currentTerm)
	for _, e := range ae.Entries {
		vAssume(vAnd(e.Term >= 1, e.Term <= ae.Term))
	}
	aresp := &AppendEntriesResponse{}
	aeRan := false
	// ... or a complete snapshot with a larger label that another leader sends meanwhile
	L2 := vNondetU64("is2.label")
	vAssume(vAnd(L2 > L, L2 < vMaxIdx))
	req2 := &InstallSnapshotRequest{LeaderID: "n2", Term: ae.Term, LastIncludedIndex: L2, LastIncludedTerm: vNondetU64("is2.labelTerm"),
		Configuration: cfgData, Offset: 0, Done: true}
	var b2 [8]byte
	for i := 0; i < 8; i++ {
		b2[i] = byte(L2 >> (8 * uint(i)))
	}
	req2.Bytes = b2[:]
	is2Ran := false
	during := vChoose("during-restore", 3) // nothing / an AppendEntries / another InstallSnapshot
	n.fsm.onRest = func() {
		vAssert(!vHeld(&r.mu), "C20.lock-released-around-restore")
		if during == 1 && !aeRan {
			aeRan = true
			err := r.AppendEntries(ae, aresp)
			vAssert(err == nil || !aresp.Success, "C18.ae-total")
		}
		if during == 2 && !is2Ran {
			is2Ran = true
			resp2 := &InstallSnapshotResponse{}
			_ = r.InstallSnapshot(req2, resp2)
		}
	}
	resp := &InstallSnapshotResponse{}
	err := r.InstallSnapshot(req, resp)
	vDrain()
	vAssert(err == nil, "C18.is-total")
	vAssert(!vHeld(&r.mu), "C18|C20.lock-released")
	post := vSnapshotNode(n)
	vAssert(n.fsm.restores >= 1, "C10.snapshot-restored")
	vCheckInv(n, true, true)
	// whatever ran meanwhile: the state machine reflects exactly the prefix the node says it has applied, and the most
	// recent snapshot is the one the log starts at
	vAssert(n.fsm.through == post.applied, "C01|C10.state-machine-reflects-exactly-the-applied-prefix")
	if lr := n.snaps.latest(); lr != nil {
		vAssert(lr.meta.LastIncludedIndex == post.lastIncludedIndex, "C10|C13|C14.most-recent-snapshot-is-the-one-the-log-starts-at")
	}
	if is2Ran {
		vCover("install-snapshot-during-restore")
		return
	}
	if !aeRan {
		vCover("install-alone")
		vAssert(vAnd(post.lastIncludedIndex == L, vAnd(post.firstIndex == L, post.logLen == 1)), "C10|C11.log-replaced-by-snapshot-boundary")
		return
	}
	vCover("append-entries-during-restore")
	if aresp.Success {
		vCover("accepted-during-restore")
		for _, e := range ae.Entries {
			kept := e.Index <= post.lastIncludedIndex
			for i := 1; i < post.logLen; i++ {
				kept = vOr(kept, vAnd(n.log.entries[i].Index == e.Index, n.log.entries[i].Term == e.Term))
			}
			vAssert(kept, "C04|C06|C11.entries-acknowledged-during-an-installation-are-kept")
		}
	}
}
