package raft

import "time"

// vh_Strings: rendering of every State / OperationType value a node can report.
// vh_API: every sequence of up to three lifecycle calls (Bootstrap, Start, Restart, Stop) on a freshly
// constructed node, followed by one probe of the public API / RPC handlers. No panic, no fatal exit,
// no blocking; futures resolve or are registered. (C18.nopanic, C18.lifecycle, C18.future)

func vh_Strings() {
	vOnPanic("C18.rendering-total")
	states := []State{Leader, Follower, PreCandidate, Candidate, Shutdown}
	s := states[vChoose("state", len(states))]
	vTagInt("state", int(s))
	str := s.String()
	vAssert(len(str) > 0, "C18.state-renders")
	ops := []OperationType{Replicated, LinearizableReadOnly, LeaseBasedReadOnly}
	o := ops[vChoose("optype", len(ops))]
	vAssert(len(o.String()) > 0, "C18.operation-type-renders")
	// Status of a node in that state renders too
	n := vBuildNode(vNodeSpec{name: "s", self: "n1", ids: []string{"n1"}, maxLog: 0, states: states, members: "all-voters"})
	st := n.r.Status()
	_ = st.State.String()
	vAssert(vAnd(st.Term == n.r.currentTerm, vAnd(st.CommitIndex == n.r.commitIndex, st.LastApplied == n.r.lastApplied)), "C08|C18.status-reports-node-state")
	vCover("rendered")
}

// The timers are short so that Stop() (which waits for the ticker and heartbeat goroutines) returns promptly
// when a run is replayed natively; the harness itself finishes long before the first tick.
func vNewStoppedNode() (*Raft, *vTransport, *vFSM, *persistentLog) {
	lg := vBuildLog("d", 0, 0, 0, 0, false)
	tr := &vTransport{addr: "addr-n1"}
	fsm := &vFSM{}
	r, err := NewRaft("n1", "addr-n1", fsm, "unused", WithLog(lg), WithStateStorage(&vState{}), WithSnapshotStorage(&vSnapStore{}),
		WithTransport(tr), WithElectionTimeout(400*time.Millisecond), WithHeartbeatInterval(20*time.Millisecond))
	vAssert(err == nil, "C13|C14.node-construction-succeeds")
	if err != nil {
		vEndPath()
	}
	return r, tr, fsm, lg
}

func vh_API() {
	vOnPanic("C18.nopanic")
	vOnFatal("C18.nofatal")
	r, _, _, _ := vNewStoppedNode()
	steps := vChoose("steps", 4)
	seq := ""
	for i := 0; i < steps; i++ {
		switch vChoose("call", 4) {
		case 0:
			cfgm := map[string]string{"n1": "addr-n1", "n2": "addr-n2"}
			_ = r.Bootstrap(cfgm)
			seq += "B"
		case 1:
			vAssert(r.Start() == nil, "C18.start-succeeds")
			seq += "S"
		case 2:
			vAssert(r.Restart() == nil, "C18.restart-succeeds")
			seq += "R"
		case 3:
			r.Stop()
			seq += "X"
		}
	}
	vTag("seq", seq)
	running := r.Status().State != Shutdown
	vTagBool("running", running)
	probe := vChoose("probe", 8)
	vTagInt("probe", probe)
	// make the node willing to process vote requests
	r.mu.Lock()
	r.lastContact = vTimeAgo(time.Hour)
	r.mu.Unlock()
	switch probe {
	case 0:
		_ = r.Status().State.String()
		_ = r.Configuration()
	case 1:
		resp := &AppendEntriesResponse{}
		err := r.AppendEntries(&AppendEntriesRequest{LeaderID: "n2", Term: vNondetU64("ae.term"), PrevLogIndex: vNondetU64("ae.prev"), PrevLogTerm: vNondetU64("ae.prevTerm")}, resp)
		vAssert(running == (err == nil), "C18.append-entries-errors-iff-stopped")
	case 2:
		resp := &RequestVoteResponse{}
		err := r.RequestVote(&RequestVoteRequest{CandidateID: "n2", Term: vNondetU64("rv.term"), LastLogIndex: vNondetU64("rv.last"), LastLogTerm: vNondetU64("rv.lastTerm"), Prevote: vNondetBool("rv.prevote")}, resp)
		vAssert(running == (err == nil), "C18.request-vote-errors-iff-stopped")
	case 3:
		resp := &InstallSnapshotResponse{}
		err := r.InstallSnapshot(&InstallSnapshotRequest{LeaderID: "n2", Term: vNondetU64("is.term"), LastIncludedIndex: vNondetU64("is.label"), Offset: 1}, resp)
		vAssert(running == (err == nil), "C18.install-snapshot-errors-iff-stopped")
	case 4:
		types := []OperationType{Replicated, LinearizableReadOnly, LeaseBasedReadOnly, OperationType(9)}
		f := r.SubmitOperation([]byte{1}, types[vChoose("optype", 4)], time.Second).(*future[OperationResponse])
		vAssert(len(f.responseCh) == 1, "C18.non-leader-submission-resolves-at-once")
	case 5:
		f := r.AddServer("n3", "addr-n3", vNondetBool("voter"), time.Second).(*future[Configuration])
		vAssert(len(f.responseCh) == 1, "C18.non-leader-membership-change-resolves-at-once")
	case 6:
		f := r.RemoveServer("n2", time.Second).(*future[Configuration])
		vAssert(len(f.responseCh) == 1, "C18.non-leader-membership-change-resolves-at-once")
	case 7:
		// the election loop body on whatever state the lifecycle calls left
		r.mu.Lock()
		if r.state != Shutdown {
			r.election()
		}
		r.mu.Unlock()
	}
	vAssert(!vHeld(&r.mu), "C18|C20.lock-released")
	vCover("probed")
	if running {
		vCover("probed-running")
		r.Stop() // natively: let the background loops exit
	}
}
