package raft

// vh_AECFG: the AppendEntries handler on a node whose log and whose request hold CONFIGURATION entries (L1).
//
// C09 / C01 / C02 rest on every node that can campaign or count acknowledgements using the most recent
// configuration in its log, committed or not (CFG): majorities of configurations one change apart intersect,
// majorities of configurations two changes apart need not. A node that put configurations in force only when it
// applies them can lag arbitrarily behind its own log (a slow state machine is enough) and be elected by a group
// that is disjoint from the majority the current leader relies on (demonstration in /verif/findings/C09-...).
//
// Obligation: CFG is inductive over the handler. Pre-state: CFG holds (a leader may additionally be waiting for
// the commitment of a removal it has appended: it keeps the old configuration in force until then). Post-state:
// CFG holds again - for appended configurations, for a truncated configuration (fall back to the most recent one
// left in the log, else to the committed one), and for a leader that is deposed by the request.

// vLatestLogCfg returns the most recent configuration entry of the node's log (placeholder excluded).
func vLatestLogCfg(n *vNode) (*Configuration, bool) {
	es := n.log.entries
	for i := len(es) - 1; i >= 1; i-- {
		if es[i].EntryType != ConfigurationEntry {
			continue
		}
		c, err := n.tr.DecodeConfiguration(es[i].Data)
		if err == nil {
			return &c, true
		}
	}
	return nil, false
}

func vCfgSame(a, b *Configuration, ids []string) bool {
	ok := a.Index == b.Index
	for _, id := range ids {
		ma, va := vCfgHas(a, id)
		mb, vb := vCfgHas(b, id)
		ok = vAnd(ok, vAnd(ma == mb, vImplies(ma, va == vb)))
	}
	return ok
}

// vCfgInForceOK is CFG for one node: the configuration in force is the most recent one in the log if that is
// newer than the committed (applied / snapshot) configuration, else the committed one. A leader may instead
// still use the committed one while the removal it appended is uncommitted.
func vCfgInForceOK(n *vNode, ids []string) bool {
	r := n.r
	var ci uint64
	if r.committedConfiguration != nil {
		ci = r.committedConfiguration.Index
	}
	c, found := vLatestLogCfg(n)
	if !found {
		return r.configuration.Index == ci
	}
	ok := vOr(vAnd(c.Index > ci, vCfgSame(r.configuration, c, ids)), vAnd(c.Index <= ci, r.configuration.Index == ci))
	if r.state == Leader {
		ok = vOr(ok, r.configuration.Index == ci)
	}
	return ok
}

// vGenCfg generates one of a few configuration shapes over the three ids (all voters; one server less; this node
// removed; one non-voting member) with the given log index.
func vGenCfg(n *vNode, name string, ids []string, index uint64) (*Configuration, []byte) {
	c := &Configuration{Members: map[string]string{}, IsVoter: map[string]bool{}, Index: index}
	shape := vChoose(name+".shape", vBound("cfgshapes"))
	for i, id := range ids {
		member, voter := true, true
		switch shape {
		case 1:
			member = i != 2
		case 2:
			member = i != 0
		case 3:
			voter = i != 1
		}
		if member {
			c.Members[id] = "addr-" + id
			c.IsVoter[id] = voter
		}
	}
	data, _ := n.tr.EncodeConfiguration(c)
	return c, data
}

func vPutInForce(n *vNode, c *Configuration) {
	r := n.r
	cc := c.Clone()
	r.configuration = &cc
	for id := range r.followers {
		if _, ok := cc.Members[id]; !ok {
			delete(r.followers, id)
		}
	}
	for id := range cc.Members {
		if _, ok := r.followers[id]; !ok {
			r.followers[id] = &follower{nextIndex: n.log.LastIndex() + 1}
		}
	}
}

func vh_AECFG() {
	ids := []string{"n1", "n2", "n3"}
	n := vBuildNode(vNodeSpec{name: "f", self: "n1", ids: ids, maxLog: vBound("log"), dataLen: 1,
		states: []State{Follower, Leader}, members: "all-voters"})
	r := n.r
	vSetContact(r, "f")
	vAssume(n.log.LastTerm() <= r.currentTerm) // N1
	vAssume(vImplies(r.state == Leader, r.votedFor == "n1"))
	// the committed configuration is an applied one: its index is at or below lastApplied (or the snapshot's)
	vAssume(r.committedConfiguration.Index <= r.lastApplied)
	// ---- at most two configurations in the log above the committed one (the older one committed in the cluster but
	// not yet applied here, the newer one uncommitted), at any positions
	var latest *Configuration
	ncfg := 0
	for i := 1; i < len(n.log.entries); i++ {
		e := n.log.entries[i]
		if ncfg < 2 && vNondetBool("f.log-entry-is-configuration") {
			vAssume(e.Index > r.committedConfiguration.Index)
			c, data := vGenCfg(n, "f.logcfg", ids, e.Index)
			e.EntryType, e.Data = ConfigurationEntry, data
			latest = c
			ncfg++
			vTag("log-configuration", "yes")
		}
	}
	vSyncLogToDisk(n.log)
	pendingRemoval := false
	if latest != nil {
		lastIsCfg := n.log.entries[len(n.log.entries)-1].EntryType == ConfigurationEntry
		if r.state == Leader && lastIsCfg && vNondetBool("leader-awaits-commitment-of-removal") {
			// RemoveServer appended the configuration and keeps the committed one in force until it is applied
			pendingRemoval = true
			vAssume(n.log.entries[len(n.log.entries)-1].Index > r.commitIndex)
			r.configurationResponseCh = make(chan Result[Configuration], 1)
			vTag("pending-removal", "yes")
		} else {
			vPutInForce(n, latest)
		}
	}
	vAssert(vCfgInForceOK(n, ids), "INV.harness-establishes-CFG")
	req := vBuildAERequest("req", vBound("entries"))
	nreq := 0
	for _, e := range req.Entries {
		if nreq < 1 && vNondetBool("req.entry-is-configuration") {
			nreq++
			_, data := vGenCfg(n, "req.cfg", ids, e.Index)
			e.EntryType, e.Data = ConfigurationEntry, data
			vTag("request-configuration", "yes")
		}
	}
	vAssume(vNot(vAnd(r.state == Leader, req.Term == r.currentTerm))) // GA1
	// GA2 (leader completeness as a rely): a legitimate request agrees with the receiver on committed entries, so it
	// never truncates at or below the commit index (and hence never below the committed configuration)
	for _, le := range n.log.entries {
		for _, e := range req.Entries {
			vAssume(vImplies(vAnd(le.Index == e.Index, le.Index <= r.commitIndex), le.Term == e.Term))
		}
	}
	conflict := false
	for _, le := range n.log.entries[1:] {
		for _, e := range req.Entries {
			conflict = vOr(conflict, vAnd(le.Index == e.Index, le.Term != e.Term))
		}
	}
	pre := vSnapshotNode(n)
	preCommittedIdx := r.committedConfiguration.Index

	resp := &AppendEntriesResponse{}
	err := r.AppendEntries(req, resp)
	vDrain()
	vCheckInv(n, false, true, false)
	post := vSnapshotNode(n)
	vAssert(err == nil, "C18.ae-total")
	vAssert(!vHeld(&r.mu), "C18|C20.lock-released")
	truncatedCommitted := vAnd(post.logLen >= 1, vAnd(pre.lastIndex >= preCommittedIdx, post.lastIndex < preCommittedIdx))
	if resp.Success {
		vCover("accepted")
	}
	if post.state != Leader {
		// every node that is not (or no longer) the leader uses the most recent configuration in its log
		vAssert(vOr(truncatedCommitted, vCfgInForceOK(n, ids)), "C01|C02|C09.configuration-in-force-is-the-most-recent-in-the-log")
		if pre.state == Leader && pendingRemoval {
			vCover("deposed-leader-adopts-its-pending-removal")
		}
	} else {
		vAssert(vCfgInForceOK(n, ids), "C01|C02|C09.configuration-in-force-is-the-most-recent-in-the-log")
	}
	// the followers table covers exactly the members in force (replication and vote counting iterate over both)
	for _, id := range ids {
		_, member := r.configuration.Members[id]
		_, has := r.followers[id]
		vAssert(vImplies(member, has), "C09|INV.followers-table-covers-members-in-force")
	}
	vAssert(r.committedConfiguration.Index == preCommittedIdx, "C09.append-entries-does-not-commit-configurations")
	if c, found := vLatestLogCfg(n); found && resp.Success {
		vCoverIf(c.Index > pre.lastIndex, "appended-configuration-in-force")
	}
	vCoverIf(vAnd(resp.Success, conflict), "truncated")
}
