package raft

// vh_AL: one wake-up of applyLoop from an arbitrary node state with committed, unapplied entries (L1).
// Obligations: C01.apply (exactly the committed entries, in order, with their own index/term/bytes),
// C03.ans (the future registered for an applied entry is answered once, truthfully), C18.resolve.

func vh_AL() {
	ids := []string{"n1", "n2", "n3"}
	n := vBuildNode(vNodeSpec{name: "a", self: "n1", ids: ids, maxLog: vBound("log"), dataLen: 1, anyTypes: true,
		states: []State{Leader, Follower, Candidate}, members: "all-voters"})
	r := n.r
	pre := vSnapshotNode(n)
	// N5: a leader may hold a future for any operation entry above lastApplied
	chans := make([]chan Result[OperationResponse], pre.logLen)
	for i := 1; i < pre.logLen; i++ {
		e := n.log.entries[i]
		if r.state == Leader && e.EntryType == OperationEntry && vNondetBool("a.registered") {
			vAssume(e.Index > r.lastApplied)
			chans[i] = make(chan Result[OperationResponse], 1)
			r.operationManager.pendingReplicated[e.Index] = chans[i]
		}
	}
	calls := 0
	lastIdx := pre.applied
	n.fsm.onApply = func(op *Operation) {
		calls++
		vAssert(!vHeld(&r.mu), "C20.lock-released-around-apply")
		vAssert(op.LogIndex == lastIdx+1 || op.LogIndex > lastIdx, "C01.apply-index-increasing")
		vAssert(vAnd(op.LogIndex > pre.applied, op.LogIndex <= pre.commit), "C01.apply-only-committed-unapplied")
		vAssert(r.lastApplied == op.LogIndex-1, "C01|C10.apply-next-after-lastApplied")
		lastIdx = op.LogIndex
	}
	ctl := &vLoopCtl{}
	var post vSnap
	ctl.after = func() { post = vSnapshotNode(n) }
	n.hook = vLoopHook(n, ctl, "apply")
	r.wg.Add(1)
	r.applyLoop()
	vDrain()
	vCheckInv(n, true, true)
	vAssert(ctl.waits == 2, "C18.apply-loop-returns-to-wait")
	vAssert(!vHeld(&r.mu), "C18|C20.lock-released")
	vAssert(post.applied == pre.commit, "C01|C15.everything-committed-gets-applied")
	vAssert(vAnd(post.commit == pre.commit, vAnd(post.logLen == pre.logLen, post.term == pre.term)), "C01.apply-loop-touches-nothing-else")
	// walk the log: which entries had to be applied
	k := 0
	for i := 1; i < pre.logLen; i++ {
		e := n.log.entries[i]
		inRange := vAnd(e.Index > pre.applied, e.Index <= pre.commit)
		if !inRange {
			if chans[i] != nil {
				vAssert(len(chans[i]) == 0, "C03.unapplied-entry-not-answered")
				_, still := r.operationManager.pendingReplicated[e.Index]
				vAssert(still, "C03.unapplied-entry-stays-registered")
			}
			continue
		}
		if e.EntryType != OperationEntry {
			continue
		}
		vCover("operation-applied")
		vAssert(k < len(n.fsm.applied), "C01.operation-entry-applied")
		if k >= len(n.fsm.applied) {
			return
		}
		a := n.fsm.applied[k]
		k++
		vAssert(vAnd(a.index == e.Index, a.term == e.Term), "C01.apply-carries-entry-index-and-term")
		vAssert(vAnd(a.blen == 1, a.b0 == e.Data[0]), "C01|C19.apply-carries-entry-bytes")
		vAssert(a.typ == Replicated, "C01.apply-type")
		if chans[i] != nil {
			vCover("future-answered")
			vAssert(len(chans[i]) == 1, "C03|C18.registered-future-answered-once")
			if len(chans[i]) == 1 {
				res := <-chans[i]
				vAssert(res.Error() == nil, "C03.answer-is-success")
				ok := res.Success()
				vAssert(vAnd(ok.Operation.LogIndex == e.Index, ok.Operation.LogTerm == e.Term), "C03.answer-names-entry-position")
				vAssert(vAnd(len(ok.Operation.Bytes) == 1, ok.Operation.Bytes[0] == e.Data[0]), "C03|C19.answer-returns-submitted-bytes")
				vAssert(ok.ApplicationResponse == interface{}(e.Index), "C03.answer-carries-state-machine-result")
			}
			_, still := r.operationManager.pendingReplicated[e.Index]
			vAssert(!still, "C03.answered-future-unregistered")
		}
	}
	vAssert(k == len(n.fsm.applied), "C01.nothing-else-applied")
	vAssert(calls == len(n.fsm.applied), "C01.apply-count")
	vCoverIf(pre.commit > pre.applied, "had-work")
}
