package raft

// vh_RO: one wake-up of readOnlyLoop from an arbitrary node state with two pending read-only
// operations of arbitrary type / verification status / read index and an arbitrary lease (L1).
// Obligations: C05.serve, C05.readIndex (serve side), C17.serve.
// Assumed invariant RI (discharged in vh_SUB): a pending read's readIndex reaches the leader's
// first own-term log position.

func vh_RO() {
	ids := []string{"n1", "n2", "n3"}
	n := vBuildNode(vNodeSpec{name: "l", self: "n1", ids: ids, maxLog: vBound("log"), dataLen: 1,
		states: []State{Leader, Follower, Candidate}, members: "all-voters"})
	r := n.r
	vAssume(n.log.LastTerm() <= r.currentTerm)
	vAssume(vImplies(r.state == Leader, n.log.LastTerm() == r.currentTerm))
	leaseValid := vSetLease(r, "l")
	pre := vSnapshotNode(n)
	own, hasOwn := vFirstOwnTermIndex(&pre)
	type rd struct {
		op *Operation
		ch chan Result[OperationResponse]
	}
	var reads []rd
	if r.state == Leader {
		for i := 0; i < 2; i++ {
			op := &Operation{Bytes: []byte{vNondetByte("rd.byte")}, readIndex: vNondetU64("rd.readIndex"), quorumVerified: vNondetBool("rd.verified")}
			op.OperationType = LinearizableReadOnly
			if vNondetBool("rd.lease") {
				op.OperationType = LeaseBasedReadOnly
			}
			vAssume(op.readIndex <= pre.lastIndex)
			vAssume(vImplies(hasOwn, op.readIndex >= own)) // RI
			ch := make(chan Result[OperationResponse], 1)
			r.operationManager.pendingReadOnly[op] = ch
			reads = append(reads, rd{op, ch})
		}
	}
	committed := false
	n.fsm.onApply = func(op *Operation) {
		vAssert(!vHeld(&r.mu), "C20.lock-released-around-apply")
		vAssert(pre.state == Leader, "C05|C17.only-leader-serves-reads")
		vAssert(committed, "C05|C17.serve-needs-commit-in-current-term")
		vAssert(op.readIndex <= r.lastApplied, "C05|C17.serve-needs-readIndex-applied")
		vAssert(vImplies(hasOwn, r.lastApplied >= own), "C05|C17.serve-reflects-earlier-leaders-acks")
		vAssert(vImplies(op.OperationType == LinearizableReadOnly, op.quorumVerified), "C05.linearizable-serve-needs-verified-leadership")
		vAssert(vImplies(op.OperationType == LeaseBasedReadOnly, leaseValid), "C17.lease-serve-needs-valid-lease")
		vAssert(op.LogIndex == 0, "C03.read-not-in-log")
	}
	committed = vRefCommittedThisTerm(&pre)
	ctl := &vLoopCtl{}
	var post vSnap
	ctl.after = func() { post = vSnapshotNode(n) }
	n.hook = vLoopHook(n, ctl, "readOnly")
	r.wg.Add(1)
	r.readOnlyLoop()
	vDrain()
	vCheckInv(n, true, true)
	vAssert(ctl.waits == 2, "C18.read-loop-returns-to-wait")
	vAssert(!vHeld(&r.mu), "C18|C20.lock-released")
	vAssert(vAnd(post.commit == pre.commit, vAnd(post.applied == pre.applied, vAnd(post.logLen == pre.logLen, post.term == pre.term))), "C01.read-loop-changes-no-replicated-state")
	served := 0
	for i := range reads {
		op, ch := reads[i].op, reads[i].ch
		_, pending := r.operationManager.pendingReadOnly[op]
		vAssert(len(ch) <= 1, "C18.read-answered-at-most-once")
		vAssert(pending != (len(ch) == 1), "C05|C18.read-either-pending-or-answered")
		if len(ch) == 1 {
			res := <-ch
			if res.Error() == nil {
				served++
				vCover("read-served")
				resp := res.Success()
				vAssert(vAnd(len(resp.Operation.Bytes) == 1, resp.Operation.Bytes[0] == op.Bytes[0]), "C05|C19.read-answer-carries-operation")
			} else {
				vCover("read-refused")
				vAssert(res.Error() == ErrInvalidLease, "C17.refusal-is-invalid-lease")
				vAssert(vAnd(op.OperationType == LeaseBasedReadOnly, !leaseValid), "C17.invalid-lease-only-when-lapsed")
			}
		} else {
			vCoverIf(true, "read-kept-pending")
			// C18.resolve (progress): a read that may be served is served by this wake-up
			servable := vAnd(committed, vAnd(op.readIndex <= pre.applied, vOr(vAnd(op.OperationType == LinearizableReadOnly, op.quorumVerified), op.OperationType == LeaseBasedReadOnly)))
			vAssert(!servable, "C15|C18.servable-read-is-answered")
		}
	}
	vAssert(served == len(n.fsm.applied), "C05.every-applied-read-answered")
}
