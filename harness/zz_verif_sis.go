package raft

// vh_SIS: sendAppendEntries on the snapshot path (nextIndex <= lastIncludedIndex -> sendInstallSnapshot):
// pre-segment, RPC, post-segment, with a snapshot file of symbolic size and read position (L1).
// Obligations: C19.chunk (a request never carries more than snapshotChunkSize bytes, truthful Offset/Done),
// C02.lead, C11.fallback, C15.transfer handshake, C01.match.

func vh_SIS() {
	ids := []string{"n1", "n2"}
	n := vBuildNode(vNodeSpec{name: "l", self: "n1", ids: ids, maxLog: vBound("log"), snap: true,
		states: []State{Leader, Follower}, members: "all-voters"})
	r := n.r
	vAssume(vImplies(r.state == Leader, r.votedFor == "n1"))
	vAssume(r.lastIncludedIndex >= 1) // a snapshot exists (SnapInv)
	f := r.followers["n2"]
	f.nextIndex = vNondetU64("l.next")
	f.matchIndex = vNondetU64("l.match")
	vAssume(vAnd(f.matchIndex < f.nextIndex, f.nextIndex <= r.lastIncludedIndex))
	// the leader's newest snapshot: symbolic size, possibly already open at a symbolic position
	rec := n.snaps.latest()
	size := vNondetI64("snap.size")
	vAssume(vAnd(size >= 0, size <= 1<<20))
	big := &vBigSnapFile{meta: rec.meta, size: size}
	if vNondetBool("file.open") {
		big.pos = vNondetI64("file.pos")
		vAssume(vAnd(big.pos >= 0, big.pos <= size))
		f.snapshot = big
	} else {
		n.snaps.big = big
	}
	pos0 := big.pos
	match0, next0 := f.matchIndex, f.nextIndex
	pre := vSnapshotNode(n)
	var sent *InstallSnapshotRequest
	var resp InstallSnapshotResponse
	var mid vSnap
	rpcFailed := false
	n.tr.onIS = func(addr string, req InstallSnapshotRequest) (InstallSnapshotResponse, error) {
		sent = &req
		at := vSnapshotNode(n)
		vAssert(!vHeld(&r.mu), "C20.lock-released-around-rpc")
		vAssert(at.state == Leader, "C02.only-leader-sends-snapshots")
		vAssert(vAnd(req.LeaderID == "n1", req.Term == at.term), "C02.request-names-leader-and-term")
		vAssert(vAnd(req.LastIncludedIndex == rec.meta.LastIncludedIndex, req.LastIncludedTerm == rec.meta.LastIncludedTerm), "C10|C11.request-carries-snapshot-label")
		vAssert(vAnd(len(req.Configuration) == len(rec.meta.Configuration), req.Configuration[0] == rec.meta.Configuration[0]), "C10|C19.request-carries-snapshot-configuration")
		vAssert(req.Offset == pos0, "C19.offset-is-read-position")
		vAssert(int64(len(req.Bytes)) <= snapshotChunkSize, "C15|C19.chunk-within-chunk-size")
		vAssert(int64(len(req.Bytes)) <= size-pos0, "C19.chunk-within-file")
		vAssert(vImplies(req.Done, pos0+int64(len(req.Bytes)) == size), "C15|C19.done-only-at-end-of-file")
		vAssert(vImplies(pos0+int64(len(req.Bytes)) == size, req.Done), "C15|C19.done-at-end-of-file")
		vHavocScalars(n, "h", []State{Leader, Follower})
		mid = vSnapshotNode(n)
		if vNondetBool("rpc.fails") {
			rpcFailed = true
			return InstallSnapshotResponse{}, errVBackground
		}
		resp = InstallSnapshotResponse{Term: vNondetU64("resp.term"), BytesWritten: vNondetI64("resp.written")}
		vAssume(vAnd(resp.BytesWritten >= 0, resp.BytesWritten <= 1<<20))
		return resp, nil
	}
	r.sendAppendEntries("n2", "addr-n2", nil, 1)
	vDrain()
	vAssert(!vHeld(&r.mu), "C18|C20.lock-released")
	if sent == nil {
		vCover("not-sent")
		vAssert(pre.state != Leader, "C11|C15.leader-falls-back-to-snapshot")
		return
	}
	vCover("sent")
	post := vSnapshotNode(n)
	if r.state != Shutdown {
		vCheckInv(n, true, true)
	}
	vAssert(post.term >= mid.term, "C08.termMono")
	vAssert(vImplies(vAnd(mid.state == Leader, post.state != Leader), post.term > mid.term), "C16.leader-steps-down-only-on-higher-term")
	// a reply that carries a newer term deposes the leader (the member is ahead: it must not be fed the snapshot
	// forever): at once if the reply is in step with the request (BytesWritten == Offset), whatever the request's
	// Done flag; a reply that is out of step may instead just move the read position to the receiver's (the next
	// request is then in step - a member that rejects a request for its term writes nothing and reports 0 - and its
	// reply deposes). Demanding the step-down at once in the second case as well was more than C08/C15 state: the
	// round-1 change seeded for C15 defers it by one exchange, and an independent analysis found that harmless once
	// every request is the last one (36e8047).
	if !rpcFailed && mid.state == Leader && f.snapshot != nil || (!rpcFailed && mid.state == Leader && post.term > mid.term) {
		deposed := vAnd(post.term == resp.Term, post.state == Follower)
		inStep := resp.BytesWritten == sent.Offset
		vAssert(vImplies(vAnd(resp.Term > mid.term, inStep), deposed), "C08|C15.newer-reply-term-deposes-the-sender")
		if f.snapshot != nil {
			vAssert(vImplies(vAnd(resp.Term > mid.term, !inStep), vOr(deposed, big.pos == resp.BytesWritten)), "C08|C15.newer-reply-term-out-of-step-deposes-or-resynchronises")
		} else {
			vAssert(vImplies(vAnd(resp.Term > mid.term, !inStep), deposed), "C08|C15.newer-reply-term-out-of-step-deposes-or-resynchronises")
		}
	}
	if f.matchIndex != match0 || f.nextIndex != next0 {
		vCover("transfer-completed")
		vAssert(vAnd(sent.Done, resp.BytesWritten == sent.Offset), "C15.transfer-completes-on-acknowledged-last-chunk")
		vAssert(vAnd(f.matchIndex == sent.LastIncludedIndex, f.nextIndex == sent.LastIncludedIndex+1), "C01|C15.indices-after-transfer")
		vAssert(f.snapshot == nil, "C15.file-closed-after-transfer")
	}
	if !rpcFailed && f.snapshot != nil && resp.BytesWritten != sent.Offset && post.state == Leader && post.term == mid.term {
		vCover("resynchronised")
		vAssert(big.pos == resp.BytesWritten, "C15.read-position-follows-receiver")
	}
}
