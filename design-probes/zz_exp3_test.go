package raft

import (
	"errors"
	"fmt"
	"testing"
	"time"
)

// memTransport routes RPCs to handlers of other in-process nodes; hooks let a test delay replies.
type memNet struct{ nodes map[string]*Raft }
type memTransport struct {
	net   *memNet
	addr  string
	hookA func(addr string, req AppendEntriesRequest, resp *AppendEntriesResponse) error
	down  bool
}

func (m *memTransport) Run() error      { return nil }
func (m *memTransport) Shutdown() error { return nil }
func (m *memTransport) SendAppendEntries(a string, r AppendEntriesRequest) (AppendEntriesResponse, error) {
	var resp AppendEntriesResponse
	if m.down {
		return resp, errors.New("down")
	}
	if m.hookA != nil {
		err := m.hookA(a, r, &resp)
		return resp, err
	}
	n := m.net.nodes[a]
	if n == nil {
		return resp, errors.New("no node")
	}
	err := n.AppendEntries(&r, &resp)
	return resp, err
}
func (m *memTransport) SendRequestVote(a string, r RequestVoteRequest) (RequestVoteResponse, error) {
	var resp RequestVoteResponse
	n := m.net.nodes[a]
	if n == nil || m.down {
		return resp, errors.New("no node")
	}
	err := n.RequestVote(&r, &resp)
	return resp, err
}
func (m *memTransport) SendInstallSnapshot(a string, r InstallSnapshotRequest) (InstallSnapshotResponse, error) {
	var resp InstallSnapshotResponse
	n := m.net.nodes[a]
	if n == nil || m.down {
		return resp, errors.New("no node")
	}
	err := n.InstallSnapshot(&r, &resp)
	return resp, err
}
func (m *memTransport) RegisterAppendEntriesHandler(func(*AppendEntriesRequest, *AppendEntriesResponse) error) {}
func (m *memTransport) RegisterRequestVoteHandler(func(*RequestVoteRequest, *RequestVoteResponse) error)     {}
func (m *memTransport) RegsiterInstallSnapshotHandler(func(*InstallSnapshotRequest, *InstallSnapshotResponse) error) {
}
func (m *memTransport) EncodeConfiguration(c *Configuration) ([]byte, error) { return encodeConfiguration(c) }
func (m *memTransport) DecodeConfiguration(d []byte) (Configuration, error)  { return decodeConfiguration(d) }
func (m *memTransport) Address() string                                        { return m.addr }

func mkm(t *testing.T, net *memNet, id string, dir string) *Raft {
	if dir == "" {
		dir = t.TempDir()
	}
	tr := &memTransport{net: net, addr: id}
	r, err := NewRaft(id, id, newStateMachineMock(false, 0), dir, WithTransport(tr))
	if err != nil {
		t.Fatal(err)
	}
	net.nodes[id] = r
	return r
}

func abc() *Configuration {
	return &Configuration{Members: map[string]string{"a": "a", "b": "b", "c": "c"}, IsVoter: map[string]bool{"a": true, "b": true, "c": true}, Index: 1}
}

// E7 (#2): stale AppendEntries reply from an earlier term of leadership sets matchIndex.
func TestExp3StaleReply(t *testing.T) {
	net := &memNet{nodes: map[string]*Raft{}}
	a := mkm(t, net, "a", "")
	a.configuration = abc()
	a.followers = map[string]*follower{"a": {}, "b": {nextIndex: 2}, "c": {nextIndex: 2}}
	a.state = Leader
	a.currentTerm = 5
	a.votedFor = "a"
	a.log.AppendEntry(NewLogEntry(1, 1, nil, NoOpEntry))
	for i := uint64(2); i <= 6; i++ {
		a.log.AppendEntry(NewLogEntry(i, 5, []byte("old"), OperationEntry))
	}
	release := make(chan bool)
	done := make(chan bool)
	a.transport.(*memTransport).hookA = func(addr string, req AppendEntriesRequest, resp *AppendEntriesResponse) error {
		<-release // reply delayed in the network
		resp.Term, resp.Success = 5, true // b really appended 2..6@5 in term 5
		return nil
	}
	go func() { a.sendAppendEntries("b", "b", nil); close(done) }()
	time.Sleep(50 * time.Millisecond)
	// Meanwhile: a deposed by term 6 leader which overwrote 2.. with one entry, then a re-elected in term 7.
	a.mu.Lock()
	a.becomeFollower("c", 6)
	a.log.Truncate(2)
	a.log.AppendEntry(NewLogEntry(2, 6, []byte("x"), OperationEntry))
	a.currentTerm = 7
	a.votedFor = "a"
	a.state = Candidate
	a.becomeLeader() // appends no-op 3@7
	for i := uint64(4); i <= 6; i++ {
		a.log.AppendEntry(NewLogEntry(i, 7, []byte("new"), OperationEntry))
	}
	a.transport.(*memTransport).down = true
	a.mu.Unlock()
	close(release)
	<-done
	a.mu.Lock()
	fmt.Println("E7 term", a.currentTerm, "matchIndex[b] =", a.followers["b"].matchIndex, "(b holds 2..6@5, a holds 2@6,3..6@7)")
	// run the commit rule by hand exactly as commitLoop does
	idx := uint64(6)
	e, _ := a.log.GetEntry(idx)
	matches := 1
	for id, f := range a.followers {
		if id != a.id && a.configuration.IsVoter[id] && f.matchIndex >= idx {
			matches++
		}
	}
	fmt.Println("E7 entry6 term==current:", e.Term == a.currentTerm, "matches", matches, "quorum", a.hasQuorum(matches))
	a.mu.Unlock()
}

// E8 (#15): restart with a visible snapshot newer than a short log.
func TestExp3SnapshotAheadOfLog(t *testing.T) {
	net := &memNet{nodes: map[string]*Raft{}}
	dir := t.TempDir()
	b := mkm(t, net, "b", dir)
	b.log.AppendEntry(NewLogEntry(1, 1, nil, NoOpEntry))
	cd, _ := encodeConfiguration(abc())
	ops, _ := encodeOperations([]Operation{})
	f, _ := b.snapshotStorage.NewSnapshotFile(10, 2, cd)
	f.Write(ops)
	f.Close() // crash here: snapshot visible, log not discarded
	b.log.Close()
	b2 := mkm(t, net, "b", dir)
	b2.state = Follower
	b2.followers = map[string]*follower{}
	fmt.Println("E8 restarted: lII", b2.lastIncludedIndex, "commit", b2.commitIndex, "logLast", b2.log.LastIndex())
	next := uint64(11)
	for round := 0; round < 6; round++ {
		var resp AppendEntriesResponse
		req := AppendEntriesRequest{LeaderID: "a", Term: 3, PrevLogIndex: next - 1, PrevLogTerm: 2, LeaderCommit: 12,
			Entries: []*LogEntry{NewLogEntry(next, 3, []byte("z"), OperationEntry)}}
		if next <= 10 { // leader would send its snapshot (label 10)
			var sr InstallSnapshotResponse
			b2.InstallSnapshot(&InstallSnapshotRequest{LeaderID: "a", Term: 3, LastIncludedIndex: 10, LastIncludedTerm: 2, Configuration: cd, Bytes: ops, Done: true}, &sr)
			fmt.Println("E8 round", round, "snapshot sent, BytesWritten", sr.BytesWritten, "-> leader sets nextIndex 11")
			next = 11
			continue
		}
		b2.AppendEntries(&req, &resp)
		fmt.Println("E8 round", round, "AE prev", req.PrevLogIndex, "success", resp.Success, "hint", resp.Index)
		if resp.Success {
			break
		}
		next = resp.Index
	}
}

// E9 (#17): a candidate whose election timed out bumps its term again without prevote.
func TestExp3CandidateBump(t *testing.T) {
	net := &memNet{nodes: map[string]*Raft{}}
	c := mkm(t, net, "c", "")
	c.configuration = abc()
	c.followers = map[string]*follower{"a": {}, "b": {}, "c": {}}
	c.state = Candidate
	c.currentTerm = 5
	c.votedFor = "c"
	c.lastContact = time.Now().Add(-time.Hour)
	c.transport.(*memTransport).down = true
	for i := 0; i < 3; i++ {
		c.mu.Lock()
		c.election()
		c.mu.Unlock()
	}
	time.Sleep(20 * time.Millisecond)
	fmt.Println("E9 isolated candidate term after 3 ticks:", c.Status().Term)
}

// E10 (#19): Stop then Start.
func TestExp3StopStart(t *testing.T) {
	defer func() { fmt.Println("E10 recovered:", recover()) }()
	net := &memNet{nodes: map[string]*Raft{}}
	a := mkm(t, net, "a", "")
	if err := a.Bootstrap(map[string]string{"a": "a"}); err != nil {
		t.Fatal(err)
	}
	a.Start()
	a.Stop()
	fmt.Println("E10 start again:", a.Start())
	a.mu.Lock()
	a.lastContact = time.Now().Add(-time.Hour)
	a.election()
	a.mu.Unlock()
}
