package raft

import (
	"fmt"
	"os"
	"path/filepath"
	"testing"
	"time"
)

func TestExpTmpDir(t *testing.T) {
	dir := t.TempDir()
	ss, err := NewSnapshotStorage(dir)
	if err != nil {
		t.Fatal(err)
	}
	f, err := ss.NewSnapshotFile(3, 1, []byte("c"))
	if err != nil {
		t.Fatal(err)
	}
	f.Write([]byte("abc"))
	// crash: no Close/Discard
	_, err = NewSnapshotStorage(dir)
	fmt.Println("EXP1 first reopen err:", err)
	_, err = NewSnapshotStorage(dir)
	fmt.Println("EXP1 second reopen err:", err)
}

func TestExpSort(t *testing.T) {
	for _, n := range []int{2, 12, 13, 20, 40} {
		dir := t.TempDir()
		ss, _ := NewSnapshotStorage(dir)
		for i := 1; i <= n; i++ {
			f, err := ss.NewSnapshotFile(uint64(i), 1, nil)
			if err != nil {
				t.Fatal(err)
			}
			f.Write([]byte{byte(i)})
			if err := f.Close(); err != nil {
				t.Fatal(err)
			}
			time.Sleep(time.Millisecond)
		}
		f, err := ss.SnapshotFile()
		if err != nil {
			t.Fatal(err)
		}
		fmt.Printf("EXP2 n=%d latest LII=%d\n", n, f.Metadata().LastIncludedIndex)
		f.Close()
	}
}

func TestExpReplayTail(t *testing.T) {
	for cut := 1; cut <= 6; cut++ {
		dir := t.TempDir()
		l, _ := NewLog(dir)
		l.Open()
		l.Replay()
		l.AppendEntry(NewLogEntry(1, 1, []byte("aaaa"), OperationEntry))
		l.Close()
		p := filepath.Join(dir, "log", "log.bin")
		st, _ := os.Stat(p)
		full := st.Size()
		// simulate partial second append: write `cut` bytes of a record
		l, _ = NewLog(dir)
		l.Open()
		l.Replay()
		l.AppendEntry(NewLogEntry(2, 1, []byte("bbbb"), OperationEntry))
		l.Close()
		st2, _ := os.Stat(p)
		os.Truncate(p, full+int64(cut))
		l, _ = NewLog(dir)
		err1 := l.Open()
		err2 := l.Replay()
		var last uint64
		var err3, err4 error
		if err2 == nil {
			last = l.LastIndex()
			err3 = l.AppendEntry(NewLogEntry(2, 2, []byte("cc"), OperationEntry))
			l.Close()
			l, _ = NewLog(dir)
			l.Open()
			err4 = l.Replay()
		}
		fmt.Printf("EXP3 rec=%d cut=%d open=%v replay=%v last=%d append=%v replay2=%v\n", st2.Size()-full, cut, err1, err2, last, err3, err4)
	}
}
