package raft

import (
	"fmt"
	"testing"
	"time"
)

func mk(t *testing.T, id string) *Raft {
	r, err := makeRaft(id, "127.0.0.1:0", t.TempDir(), false, 0)
	if err != nil {
		t.Fatal(err)
	}
	r.followers = map[string]*follower{}
	return r
}

func cfg3() *Configuration {
	return &Configuration{
		Members: map[string]string{"a": "x:1", "b": "x:2", "c": "x:3"},
		IsVoter: map[string]bool{"a": true, "b": true, "c": true},
		Index:   1,
	}
}

// E1: vote forgotten within a term.
func TestExp2VoteReset(t *testing.T) {
	r := mk(t, "b")
	r.configuration = cfg3()
	r.state = Follower
	r.currentTerm = 4
	r.lastContact = time.Now().Add(-time.Hour)
	resp := &RequestVoteResponse{}
	r.RequestVote(&RequestVoteRequest{CandidateID: "a", Term: 5}, resp)
	fmt.Println("E1 grant a:", resp.VoteGranted, "votedFor", r.votedFor, "term", r.currentTerm)
	r.state = PreCandidate // election timeout fired
	ar := &AppendEntriesResponse{}
	r.AppendEntries(&AppendEntriesRequest{LeaderID: "a", Term: 5}, ar)
	t5, v5, _ := r.stateStorage.State()
	fmt.Println("E1 after AE same term: votedFor", r.votedFor, "persisted", t5, v5)
	r.lastContact = time.Now().Add(-time.Hour)
	resp2 := &RequestVoteResponse{}
	r.RequestVote(&RequestVoteRequest{CandidateID: "c", Term: 5}, resp2)
	fmt.Println("E1 grant c in same term:", resp2.VoteGranted, "term", r.currentTerm)
}

// E2: State.String on PreCandidate.
func TestExp2StateString(t *testing.T) {
	defer func() { fmt.Println("E2 recovered:", recover()) }()
	_ = PreCandidate.String()
}

// E3: membership future.
func TestExp2MembershipFuture(t *testing.T) {
	r := mk(t, "a")
	r.configuration = &Configuration{Members: map[string]string{"a": "127.0.0.1:0"}, IsVoter: map[string]bool{"a": true}, Index: 1}
	cc := r.configuration.Clone()
	r.committedConfiguration = &cc
	r.followers["a"] = new(follower)
	r.state = Leader
	r.currentTerm = 1
	data, _ := r.transport.EncodeConfiguration(r.configuration)
	r.log.AppendEntry(NewLogEntry(1, 1, data, ConfigurationEntry))
	r.commitIndex, r.lastApplied = 1, 1
	f := r.AddServer("b", "x:2", false, 300*time.Millisecond)
	fmt.Println("E3 cfgRespCh nil:", r.configurationResponseCh == nil, "log last", r.log.LastIndex())
	// apply it by hand as applyLoop would
	r.commitIndex = 2
	e, _ := r.log.GetEntry(2)
	r.applyConfiguration(e.Data)
	respond(r.configurationResponseCh, *r.configuration, nil)
	res := f.Await()
	fmt.Println("E3 future err:", res.Error())
	// RemoveServer pending?
	r.lastApplied = 2
	f2 := r.RemoveServer("b", 10*time.Millisecond)
	_ = f2
	fmt.Println("E3 after RemoveServer pending:", r.pendingConfigurationChange(), "log last", r.log.LastIndex())
	f3 := r.AddServer("c", "x:3", true, 10*time.Millisecond)
	_ = f3
	fmt.Println("E3 second change accepted while first uncommitted: log last", r.log.LastIndex())
}

// E4: one voter + one non-voter cannot elect.
func TestExp2SingleVoterNonVoter(t *testing.T) {
	r := mk(t, "a")
	r.configuration = &Configuration{Members: map[string]string{"a": "x:1", "b": "x:2"}, IsVoter: map[string]bool{"a": true, "b": false}, Index: 1}
	r.followers["a"], r.followers["b"] = new(follower), new(follower)
	r.state = Follower
	r.lastContact = time.Now().Add(-time.Hour)
	r.mu.Lock()
	r.election()
	s1 := r.state
	r.election()
	s2 := r.state
	r.mu.Unlock()
	time.Sleep(50 * time.Millisecond)
	r.mu.Lock()
	fmt.Println("E4 states:", uint32(s1), uint32(s2), uint32(r.state), "hasQuorum(1):", r.hasQuorum(1))
	r.mu.Unlock()
}

// E5: chunk of older snapshot written into newer partial file.
func TestExp2ChunkMix(t *testing.T) {
	r := mk(t, "b")
	r.configuration = cfg3()
	r.state = Follower
	r.currentTerm = 1
	cd, _ := r.transport.EncodeConfiguration(r.configuration)
	resp := &InstallSnapshotResponse{}
	r.InstallSnapshot(&InstallSnapshotRequest{LeaderID: "a", Term: 1, LastIncludedIndex: 20, LastIncludedTerm: 1, Configuration: cd, Bytes: []byte("NEW"), Offset: 0}, resp)
	r.InstallSnapshot(&InstallSnapshotRequest{LeaderID: "a", Term: 1, LastIncludedIndex: 10, LastIncludedTerm: 1, Configuration: cd, Bytes: []byte("old"), Offset: 3, Done: true}, resp)
	f, _ := r.snapshotStorage.SnapshotFile()
	buf := make([]byte, 16)
	n, _ := f.Read(buf)
	fmt.Printf("E5 node lII=%d file label=%d bytes=%q\n", r.lastIncludedIndex, f.Metadata().LastIncludedIndex, buf[:n])
}

// E6: stale reply after re-election sets matchIndex.
func TestExp2StaleMatch(t *testing.T) {
	r := mk(t, "a")
	r.configuration = cfg3()
	for id := range r.configuration.Members {
		r.followers[id] = &follower{nextIndex: 1}
	}
	r.state = Leader
	r.currentTerm = 7 // re-elected; request below was sent in term 5
	r.log.AppendEntry(NewLogEntry(1, 7, nil, NoOpEntry))
	fmt.Println("E6 code re-checks term of request after RPC: see raft.go:1030 (state/member/err only)")
}
