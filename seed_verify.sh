#!/bin/sh
# usage: seed_verify.sh <id>   -- confirms an independently written breaking change in its scratch worktree /tmp/wt/<id>:
#   demo fails with the change, passes without; builds; the existing suite passes with the change.
# Writes /verif/seeded/<id>/{patch.diff,demo files,meta.json(agent),confirm.json}
export GOFLAGS=-mod=mod GOPROXY=off GOSUMDB=off GOTOOLCHAIN=local
id=$1; wt=/tmp/wt/$id; out=/tmp/wt/$id-out; dst=/verif/seeded/$id
mkdir -p $dst
cp $out/patch.diff $out/meta.json $out/demo_cmd.txt $dst/ 2>/dev/null
for f in $out/*_test.go $out/*.go; do [ -f "$f" ] && cp "$f" $dst/; done
cd $wt || exit 2
demo_cmd=$(grep -v '^#' $out/demo_cmd.txt | grep -m1 "go test\|go run")
[ -z "$demo_cmd" ] && demo_cmd="go test -vet=off -count=1 -run Demo ."
run_demo() { unshare -n sh -c "ip link set lo up; cd $wt && $demo_cmd" > $1 2>&1; echo $?; }
# state with change (as the agent left it)
git diff > /tmp/wt/$id.cur.diff
go build ./... > /tmp/wt/$id.build.log 2>&1; build=$?
with=$(run_demo /tmp/wt/$id.demo_with.log)
# without change
git stash -q
without=$(run_demo /tmp/wt/$id.demo_without.log)
git stash pop -q
# suite with change, demo file moved away
mkdir -p /tmp/wt/$id.demo_aside
for f in $(git ls-files --others --exclude-standard); do case "$f" in *_test.go|*demo*) mkdir -p /tmp/wt/$id.demo_aside/$(dirname $f); mv $f /tmp/wt/$id.demo_aside/$f;; esac; done
unshare -n sh -c "ip link set lo up; cd $wt && go test -json -vet=off -count=1 -timeout 25m ./..." > /tmp/wt/$id.suite.json 2>&1
(cd /tmp/wt/$id.demo_aside && find . -type f | while read f; do mv "$f" "$wt/$f"; done)
python3 - $id $build $with $without <<'PY'
import json,sys
id,build,withc,without=sys.argv[1],int(sys.argv[2]),int(sys.argv[3]),int(sys.argv[4])
p=f=0; failed=[]
for l in open('/tmp/wt/%s.suite.json'%id):
    try: e=json.loads(l)
    except: continue
    if e.get('Test') and '/' not in e['Test']:
        if e['Action']=='pass': p+=1
        elif e['Action']=='fail': f+=1; failed.append(e['Test'])
patch_same = open('/tmp/wt/%s.cur.diff'%id).read().strip()==open('/verif/seeded/%s/patch.diff'%id).read().strip()
res={"id":id,"builds":build==0,"demo_fails_with_change":withc!=0,"demo_passes_without_change":without==0,
     "suite_pass":p,"suite_fail":f,"suite_failed":failed,"patch_matches_worktree":patch_same}
json.dump(res,open('/verif/seeded/%s/confirm.json'%id,'w'),indent=1)
print("SEED-VERIFY",json.dumps(res))
PY
