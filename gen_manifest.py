#!/usr/bin/env python3
# Generates MANIFEST.json from harness/registry.json + manifest_props.json (per-property texts).
import json
reg = json.load(open('/verif/harness/registry.json'))
props = json.load(open('/verif/manifest_props.json'))
allp = [json.loads(l)['id'] for l in open('/verif/properties.jsonl')]
served = {}
for h in reg['harnesses']:
    for p in h['props']:
        served.setdefault(p, []).append(h['name'])
checks = []
na = []
for p in allp:
    info = props.get(p, {})
    if p in served and info.get('claimed', False):
        checks.append({
            "property_id": p,
            "quick_cmd": f"./check {p} --tier quick",
            "thorough_cmd": f"./check {p} --tier thorough",
            "evidence_file": f"/verif/evidence/{p}.json",
            "replay_cmd_template": "./replay {path}",
            "engine": "symgo",
            "level_claimed": {"category": "other", "text": info["level_text"], "design_ref": info.get("design_ref", "DESIGN.md §4 " + p)},
            "level_note": info["level_note"],
            "technique": info.get("technique", "bounded symbolic execution of go/ssa + SMT (z3), native replay of counterexamples"),
        })
    else:
        na.append({"property_id": p, "reason": info.get("na_reason", "check not built yet in this session; see DESIGN.md")})
m = {
    "version": 1,
    "setup_cmd": "cd /verif/engine && GOFLAGS=-mod=mod GOPROXY=off GOSUMDB=off GOTOOLCHAIN=local go build -o /verif/bin/symgo ./cmd/symgo",
    "hooks": {
        "guard": "verif",
        "enable": "no source hooks: harness files are injected through a go/packages overlay (symbolic run) and `go test -overlay` (native replay); nothing is written into /repo",
        "baseline_off_cmd": "cd /repo && GOFLAGS=-mod=mod GOPROXY=off go test -vet=off -count=1 -timeout 25m ./...",
        "source_commits": [],
        "add_only": True,
    },
    "engines": [{
        "name": "symgo", "path": "/verif/engine",
        "serves_properties": [c["property_id"] for c in checks],
        "kind_free_text": "forking symbolic executor over golang.org/x/tools/go/ssa of /repo (reloaded every run) with SMT-LIB2 bit-vector queries to z3 5.1.0; harnesses in /verif/harness (package raft overlay); counterexamples replayed natively with go test -overlay",
    }],
    "checks": checks,
    "not_applicable": na,
    "notes": "Exit codes: 0 held (KNOWN-FINDING lines for listed genuine defects), 1 violation (VIOLATION line, natively reproduced), 2 inconclusive (unwind/unsupported/solver unknown/harness does not type-check/counterexample not reproduced).",
}
json.dump(m, open('/verif/MANIFEST.json', 'w'), indent=1)
print("checks:", [c["property_id"] for c in checks], "na:", len(na))
