#!/usr/bin/env python3
# Merges the agent's meta.json, my confirmation (confirm.json) and the detection record into /verif/seeded/<id>/meta.json
import json, os, sys, glob
det = json.load(open('/verif/seeded/detections.json'))
rows = []
for d in sorted(glob.glob('/verif/seeded/*/')):
    sid = os.path.basename(d.rstrip('/'))
    if not os.path.exists(d + 'confirm.json'):
        continue
    try:
        agent = json.load(open(d + 'meta.json'))
    except Exception:
        agent = {}
    if 'agent' in agent and 'confirmed' in agent:
        agent = agent['agent']
    conf = json.load(open(d + 'confirm.json'))
    on_head = conf.get('on_head')
    if 'at_acceptance' in conf:
        conf = conf['at_acceptance'] or on_head
    dd = det.get(sid, {})
    prop = agent.get('property', sid[-3:])
    meta = {
        "seed_id": sid,
        "property": prop,
        "breaks": agent.get('summary', ''),
        "needs_to_manifest": agent.get('needs', ''),
        "files_touched": agent.get('files_touched', []),
        "written_by": "an independent sub-agent given only the property text and its own scratch worktree of /repo (HEAD with the fix: commits); nothing from /verif",
        "confirmed": {
            "what_i_ran": "/verif/seed_verify.sh %s: in the scratch worktree - go build ./...; the demonstration with the change (must fail) and with the change stashed (must pass); the repository's whole suite with the change in a private network namespace (go test -json -vet=off -count=1 -timeout 25m ./...); then /verif/bin/symgo check <property> --repo <worktree> --verif <scratch copy of harness + known_findings>" % sid,
            "builds": conf['builds'], "demo_fails_with_change": conf['demo_fails_with_change'],
            "demo_passes_without_change": conf['demo_passes_without_change'],
            "suite_pass": conf['suite_pass'], "suite_fail": conf['suite_fail'], "patch_matches_worktree": conf['patch_matches_worktree'],
        },
        "detection": dd,
        "agent": agent,
    }
    if os.path.exists(d + 'meta.json'):
        try:
            prev = json.load(open(d + 'meta.json'))
            for k in ('reverified_on_head',):
                if k in prev:
                    meta[k] = prev[k]
        except Exception:
            pass
    json.dump(meta, open(d + 'meta.json', 'w'), indent=1)
    ok = conf['builds'] and conf['demo_fails_with_change'] and conf['demo_passes_without_change'] and conf['suite_fail'] == 0 and conf['suite_pass'] >= 90
    rows.append((sid, prop, ok, dd.get('first_try'), dd.get('caught_by', '?')))
for r in rows:
    print(r)
