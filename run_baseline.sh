#!/bin/sh
# Runs the repository's own test suite (guard off: there are no hooks) and prints a pass/fail summary.
export GOFLAGS=-mod=mod GOPROXY=off GOSUMDB=off GOTOOLCHAIN=local
out=${1:-/tmp/baseline.json}
# a private network namespace keeps the cluster tests' fixed ports (127.0.0.x:8080) away from other runs
if unshare -n true 2>/dev/null; then
  unshare -n sh -c "ip link set lo up; cd /repo && go test -json -vet=off -count=1 -timeout 25m ./..." > "$out" 2>&1
else
  cd /repo && go test -json -vet=off -count=1 -timeout 25m ./... > "$out" 2>&1
fi
python3 - "$out" <<'PY'
import json,sys
p=f=0; failed=[]
for l in open(sys.argv[1]):
    try: e=json.loads(l)
    except: continue
    if e.get('Test') and '/' not in e['Test']:
        if e['Action']=='pass': p+=1
        elif e['Action']=='fail': f+=1; failed.append(e['Test'])
print("BASELINE pass=%d fail=%d %s"%(p,f,failed))
PY
