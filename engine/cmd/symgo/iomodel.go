package main

import (
	"go/types"

	"golang.org/x/tools/go/ssa"
)

// Small faithful models of io/bytes helpers over concrete-length byte slices.

func (ex *Exec) callMethod(recv *IfaceVal, name string, args ...Value) Value {
	if recv == nil || recv.Typ == nil {
		ex.end("PANIC", "nil-interface-call:"+name+"@"+ex.whereRepo())
	}
	ms := ex.w.prog.MethodSets.MethodSet(recv.Typ)
	for i := 0; i < ms.Len(); i++ {
		sel := ms.At(i)
		if sel.Obj().Name() == name {
			fn := ex.w.lookupMethod(recv.Typ, sel.Obj().(*types.Func))
			return ex.callNamed(fn, append([]Value{recv.Val}, args...), nil, nil)
		}
	}
	ex.fatal("method %s not found on %s", name, recv.Typ)
	return nil
}

func (ex *Exec) hasMethod(t types.Type, name string) bool {
	if t == nil {
		return false
	}
	ms := ex.w.prog.MethodSets.MethodSet(t)
	for i := 0; i < ms.Len(); i++ {
		if ms.At(i).Obj().Name() == name {
			return true
		}
	}
	return false
}

func (ex *Exec) ioSentinel(pkg, name string) Value {
	p := ex.w.prog.ImportedPackage(pkg)
	if p == nil {
		ex.fatal("package %s not loaded", pkg)
	}
	g := p.Var(name)
	if g == nil {
		ex.fatal("%s.%s not found", pkg, name)
	}
	return ex.load(ex.globalCell(g))
}

func isNilErr(v Value) bool {
	iv, ok := v.(*IfaceVal)
	return ok && iv.Typ == nil
}

func typeStr(t types.Type) string {
	if t == nil {
		return ""
	}
	return t.String()
}

func (ex *Exec) concInt(v Value, max int) int {
	k := ex.concretizeInt(v.(*Term), 0, max)
	if k < 0 {
		ex.fatal("integer result out of modelled range")
	}
	return k
}

func byteElem() types.Type { return types.Typ[types.Uint8] }

func registerIOModels() {
	intercepts["bytes.NewReader"] = func(ex *Exec, fn *ssa.Function, a []Value) Value {
		rt := fn.Signature.Results().At(0).Type().(*types.Pointer).Elem()
		c := ex.newCell(rt)
		c.Kids[0].V = a[0]
		c.Kids[1].V = mkConst(64, 0)
		if sv, ok := a[0].(*SliceVal); ok && sv.Blob != nil && sv.Blob.Kind == "filecontent" && ex.vfs != nil {
			ex.vfs.streams[c] = &vstream{chunks: sv.Blob.Msg.([]*vchunk)}
		}
		return &Ptr{C: c}
	}
	intercepts["(*bytes.Reader).Read"] = func(ex *Exec, fn *ssa.Function, a []Value) Value {
		chunks, pos, ok := ex.sourceOf(a[0])
		if !ok {
			ex.fatal("(*bytes.Reader).Read on a reader that is not file content")
		}
		return ex.readOnce(*chunks, pos, a[1].(*SliceVal), true)
	}
	intercepts["(*bytes.Buffer).Bytes"] = func(ex *Exec, fn *ssa.Function, a []Value) Value {
		c := a[0].(*Ptr).C
		s := c.Kids[0].V.(*SliceVal)
		if s.Blob != nil {
			return s
		}
		off := ex.concInt(c.Kids[1].V, s.Len)
		if s.Arr == nil {
			return &SliceVal{}
		}
		return &SliceVal{Arr: s.Arr, Off: s.Off + off, Len: s.Len - off, Cap: s.Cap - off}
	}
	intercepts["(*bytes.Buffer).Len"] = func(ex *Exec, fn *ssa.Function, a []Value) Value {
		c := a[0].(*Ptr).C
		s := c.Kids[0].V.(*SliceVal)
		off := ex.concInt(c.Kids[1].V, s.Len)
		return mkConst(64, uint64(s.Len-off))
	}
	intercepts["io.Copy"] = func(ex *Exec, fn *ssa.Function, a []Value) Value {
		dst := a[0].(*IfaceVal)
		src := a[1].(*IfaceVal)
		if typeStr(src.Typ) == "*bytes.Reader" {
			rc := src.Val.(*Ptr).C
			s := rc.Kids[0].V.(*SliceVal)
			if s.Blob != nil {
				ex.fatal("io.Copy from a blob-backed bytes.Reader")
			}
			i := ex.concInt(rc.Kids[1].V, s.Len)
			if s.Len-i == 0 {
				return &Agg{E: []Value{mkConst(64, 0), nilErr()}}
			}
			rem := &SliceVal{Arr: s.Arr, Off: s.Off + i, Len: s.Len - i, Cap: s.Cap - i}
			res := ex.callMethod(dst, "Write", rem).(*Agg)
			n := res.E[0].(*Term)
			rc.Kids[1].V = mkBin("bvadd", mkConst(64, uint64(i)), n)
			return &Agg{E: []Value{n, res.E[1]}}
		}
		if typeStr(dst.Typ) == "*bytes.Buffer" && ex.hasMethod(src.Typ, "vRemaining") {
			// summarised read of a reader of symbolic size: everything that remains goes into the buffer
			bc := dst.Val.(*Ptr).C
			if cur := bc.Kids[0].V.(*SliceVal); cur.Len != 0 || cur.Blob != nil {
				ex.fatal("io.Copy summary needs an empty buffer")
			}
			rem := ex.callMethod(src, "vRemaining").(*Term)
			ex.callMethod(src, "vSkip", rem)
			ex.blobSeq++
			bc.Kids[0].V = &SliceVal{Blob: &Blob{ID: ex.blobSeq, Len: rem, Kind: "filedata"}}
			return &Agg{E: []Value{rem, nilErr()}}
		}
		if typeStr(dst.Typ) == "*bytes.Buffer" {
			bc := dst.Val.(*Ptr).C
			total := 0
			eof := ex.ioSentinel("io", "EOF")
			for iter := 0; ; iter++ {
				if iter > ex.bounds["unwind"] {
					ex.end("UNWIND", "io.Copy read loop")
				}
				arr := ex.newArrayCell(byteElem(), 512)
				buf := &SliceVal{Arr: arr, Len: 512, Cap: 512}
				res := ex.callMethod(src, "Read", buf).(*Agg)
				n := ex.concInt(res.E[0], 512)
				cur := bc.Kids[0].V.(*SliceVal)
				bc.Kids[0].V = ex.appendSlice(cur, byteElem(), ex.sliceElems(&SliceVal{Arr: arr, Len: n, Cap: 512}))
				total += n
				if !isNilErr(res.E[1]) {
					if ex.valueEq(res.E[1], eof).IsTrue() {
						return &Agg{E: []Value{mkConst(64, uint64(total)), nilErr()}}
					}
					return &Agg{E: []Value{mkConst(64, uint64(total)), res.E[1]}}
				}
			}
		}
		ex.fatal("io.Copy(%s, %s) not modelled", typeStr(dst.Typ), typeStr(src.Typ))
		return nil
	}
	intercepts["io.ReadFull"] = func(ex *Exec, fn *ssa.Function, a []Value) Value {
		if r, ok := ex.vfsReadFull(a); ok {
			return r
		}
		src := a[0].(*IfaceVal)
		buf := a[1].(*SliceVal)
		if buf.Blob != nil {
			ex.fatal("io.ReadFull into blob buffer from non-vfs reader")
		}
		total := 0
		eof := ex.ioSentinel("io", "EOF")
		for iter := 0; total < buf.Len; iter++ {
			if iter > ex.bounds["unwind"] {
				ex.end("UNWIND", "io.ReadFull loop")
			}
			sub := &SliceVal{Arr: buf.Arr, Off: buf.Off + total, Len: buf.Len - total, Cap: buf.Cap - total}
			res := ex.callMethod(src, "Read", sub).(*Agg)
			n := ex.concInt(res.E[0], buf.Len-total)
			total += n
			if !isNilErr(res.E[1]) {
				if total >= buf.Len {
					break
				}
				if ex.valueEq(res.E[1], eof).IsTrue() && total > 0 {
					return &Agg{E: []Value{mkConst(64, uint64(total)), ex.ioSentinel("io", "ErrUnexpectedEOF")}}
				}
				return &Agg{E: []Value{mkConst(64, uint64(total)), res.E[1]}}
			}
		}
		return &Agg{E: []Value{mkConst(64, uint64(total)), nilErr()}}
	}
}
