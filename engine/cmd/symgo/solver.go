package main

import (
	"bufio"
	"fmt"
	"io"
	"os"
	"os/exec"
	"strconv"
	"strings"
	"time"
)

// Solver wraps one long-lived incremental SMT solver process.
type Solver struct {
	cmd       *exec.Cmd
	in        io.WriteCloser
	out       *bufio.Reader
	sync      int
	Queries   int
	Time      time.Duration
	Errors    []string
	Unknown   int
	defs      int
	name      string
	log       io.Writer
	timeoutMs int
	Retried   int // queries repeated with a larger time limit after an "unknown"
}

func solverArgs(kind string) (string, []string) {
	switch kind {
	case "z3":
		return "z3", []string{"-in", "-smt2"}
	case "cvc5":
		return "cvc5", []string{"--incremental", "--lang=smt2", "--produce-models"}
	default:
		return "z3-new", []string{"-in", "-smt2"}
	}
}

func NewSolver(kind string, timeoutMs int) (*Solver, error) {
	bin, args := solverArgs(kind)
	cmd := exec.Command(bin, args...)
	in, err := cmd.StdinPipe()
	if err != nil {
		return nil, err
	}
	outp, err := cmd.StdoutPipe()
	if err != nil {
		return nil, err
	}
	cmd.Stderr = nil
	if err := cmd.Start(); err != nil {
		return nil, err
	}
	s := &Solver{cmd: cmd, in: in, out: bufio.NewReaderSize(outp, 1<<16), name: kind, timeoutMs: timeoutMs}
	if p := os.Getenv("SYMGO_SMTLOG"); p != "" {
		f, _ := os.CreateTemp(p, "smt-*.smt2")
		s.log = f
	}
	s.send("(set-option :produce-models true)")
	if kind == "cvc5" {
		s.send("(set-logic QF_BV)")
		s.send(fmt.Sprintf("(set-option :tlimit-per %d)", timeoutMs))
	} else {
		s.send(fmt.Sprintf("(set-option :timeout %d)", timeoutMs))
	}
	s.flush()
	return s, nil
}

func (s *Solver) Close() {
	if s == nil || s.cmd == nil {
		return
	}
	s.in.Close()
	s.cmd.Process.Kill()
	s.cmd.Wait()
}

func (s *Solver) send(line string) {
	if s.log != nil {
		fmt.Fprintln(s.log, line)
	}
	io.WriteString(s.in, line)
	io.WriteString(s.in, "\n")
}

// flush sends a sync marker and returns all output lines produced before it.
func (s *Solver) flush() []string {
	s.sync++
	marker := "SYNC" + strconv.Itoa(s.sync)
	io.WriteString(s.in, "(echo \""+marker+"\")\n")
	var lines []string
	for {
		line, err := s.out.ReadString('\n')
		if err != nil {
			s.Errors = append(s.Errors, "solver died: "+err.Error())
			return lines
		}
		line = strings.TrimRight(line, "\r\n")
		t := strings.Trim(line, "\"")
		if t == marker {
			break
		}
		if line == "" {
			continue
		}
		if strings.Contains(line, "(error") {
			s.Errors = append(s.Errors, line)
		}
		lines = append(lines, line)
	}
	return lines
}

// Check runs check-sat in the current context. Returns "sat", "unsat" or "unknown".
func (s *Solver) Check() string {
	t0 := time.Now()
	s.send("(check-sat)")
	lines := s.flush()
	s.Queries++
	d := time.Since(t0)
	s.Time += d
	if s.log != nil {
		fmt.Fprintf(s.log, "; took %v\n", d)
	}
	res := "unknown"
	for _, l := range lines {
		if l == "sat" || l == "unsat" || l == "unknown" {
			res = l
		}
	}
	if res == "unknown" && s.name != "cvc5" && s.timeoutMs > 0 {
		// the per-query limit is wall-clock time, so a busy machine can turn a decidable query into "unknown":
		// ask once more with thirty times the limit before giving up
		s.send(fmt.Sprintf("(set-option :timeout %d)", 30*s.timeoutMs))
		t1 := time.Now()
		s.send("(check-sat)")
		lines = s.flush()
		s.Queries++
		s.Time += time.Since(t1)
		s.Retried++
		for _, l := range lines {
			if l == "sat" || l == "unsat" || l == "unknown" {
				res = l
			}
		}
		s.send(fmt.Sprintf("(set-option :timeout %d)", s.timeoutMs))
	}
	if res == "unknown" {
		s.Unknown++
	}
	return res
}

// Model fetches values for the given variables (name -> width) after a sat answer.
func (s *Solver) Model(vars map[string]int) map[string]uint64 {
	m := map[string]uint64{}
	if len(vars) == 0 {
		return m
	}
	names := make([]string, 0, len(vars))
	for n := range vars {
		names = append(names, n)
	}
	// chunk to keep lines short
	for i := 0; i < len(names); i += 50 {
		j := i + 50
		if j > len(names) {
			j = len(names)
		}
		var sb strings.Builder
		sb.WriteString("(get-value (")
		for _, n := range names[i:j] {
			sb.WriteString(smtName(n))
			sb.WriteString(" ")
		}
		sb.WriteString("))")
		s.send(sb.String())
		out := strings.Join(s.flush(), " ")
		parseModel(out, m)
	}
	return m
}

// parseModel parses "((|a| #x00..) (|b| true) ...)".
func parseModel(s string, m map[string]uint64) {
	i := 0
	n := len(s)
	for i < n {
		// find '(' followed by name
		if s[i] != '(' {
			i++
			continue
		}
		j := i + 1
		for j < n && s[j] == ' ' {
			j++
		}
		if j >= n {
			return
		}
		if s[j] == '(' {
			i = j
			continue
		}
		var name string
		if s[j] == '|' {
			k := strings.IndexByte(s[j+1:], '|')
			if k < 0 {
				return
			}
			name = s[j+1 : j+1+k]
			j = j + 1 + k + 1
		} else {
			k := j
			for k < n && s[k] != ' ' && s[k] != ')' {
				k++
			}
			name = s[j:k]
			j = k
		}
		for j < n && s[j] == ' ' {
			j++
		}
		// value
		var val uint64
		ok := false
		if strings.HasPrefix(s[j:], "#x") {
			k := j + 2
			for k < n && isHex(s[k]) {
				k++
			}
			v, err := strconv.ParseUint(s[j+2:k], 16, 64)
			if err == nil {
				val, ok = v, true
			}
			j = k
		} else if strings.HasPrefix(s[j:], "#b") {
			k := j + 2
			for k < n && (s[k] == '0' || s[k] == '1') {
				k++
			}
			v, err := strconv.ParseUint(s[j+2:k], 2, 64)
			if err == nil {
				val, ok = v, true
			}
			j = k
		} else if strings.HasPrefix(s[j:], "true") {
			val, ok = 1, true
			j += 4
		} else if strings.HasPrefix(s[j:], "false") {
			val, ok = 0, true
			j += 5
		} else if strings.HasPrefix(s[j:], "(_ bv") {
			k := j + 5
			e := k
			for e < n && s[e] >= '0' && s[e] <= '9' {
				e++
			}
			v, err := strconv.ParseUint(s[k:e], 10, 64)
			if err == nil {
				val, ok = v, true
			}
			for e < n && s[e] != ')' {
				e++
			}
			j = e + 1
		}
		if ok {
			m[name] = val
		}
		i = j
	}
}

func isHex(c byte) bool {
	return (c >= '0' && c <= '9') || (c >= 'a' && c <= 'f') || (c >= 'A' && c <= 'F')
}

// --- term emission -------------------------------------------------------

// smt returns SMT-LIB text for t, emitting define-funs for large shared subterms.
// Must only be called at path scope level (not inside a temporary push).
func (s *Solver) smt(t *Term) string {
	if t.str != "" {
		return t.str
	}
	var r string
	switch t.Op {
	case "const":
		r = constText(t.W, t.C)
	case "var":
		r = smtName(t.Name)
	case "extract":
		r = fmt.Sprintf("((_ extract %d %d) %s)", t.P1, t.P2, s.smt(t.Args[0]))
	case "zero_extend", "sign_extend":
		r = fmt.Sprintf("((_ %s %d) %s)", t.Op, t.P1, s.smt(t.Args[0]))
	default:
		var sb strings.Builder
		sb.WriteString("(")
		sb.WriteString(t.Op)
		for _, a := range t.Args {
			sb.WriteString(" ")
			sb.WriteString(s.smt(a))
		}
		sb.WriteString(")")
		r = sb.String()
	}
	if len(r) > 160 {
		s.defs++
		name := fmt.Sprintf("_d%d", s.defs)
		s.send(fmt.Sprintf("(define-fun %s () %s %s)", name, sortOf(t.W), r))
		r = name
	}
	t.str = r
	return r
}
