package main

import (
	"fmt"
	"go/types"
	"path/filepath"
	"strings"

	"golang.org/x/tools/go/ssa"
)

type handler func(ex *Exec, fn *ssa.Function, args []Value) Value

var intercepts map[string]handler

const loggerPrefix = "(*github.com/jmsadair/raft/logging.Logger)."

func init() {
	intercepts = map[string]handler{
		"(*sync.Mutex).Lock":     icMutexLock,
		"(*sync.Mutex).Unlock":   icMutexUnlock,
		"sync.NewCond":           icNewCond,
		"(*sync.Cond).Wait":      icCondWait,
		"(*sync.Cond).Broadcast": icCondSignal,
		"(*sync.Cond).Signal":    icCondSignal,
		"(*sync.WaitGroup).Add":  icNop,
		"(*sync.WaitGroup).Done": icNop,
		"(*sync.WaitGroup).Wait": icNop,
		// transport.go glue (vh_Wire): the transport's RWMutex only orders Run/Shutdown against senders; the harness
		// is single-threaded, so read-locking is a no-op; a gRPC status error is an opaque non-nil error.
		"(*sync.RWMutex).RLock":   icNop,
		"(*sync.RWMutex).RUnlock": icNop,
		"context.Background":      func(ex *Exec, fn *ssa.Function, a []Value) Value { return &IfaceVal{} },
		"google.golang.org/grpc/status.Error": func(ex *Exec, fn *ssa.Function, a []Value) Value {
			return ex.newError("grpc-status", nil)
		},
		"fmt.Errorf":                  icErrorf,
		"fmt.Sprintf":                 icSprintf,
		"fmt.Sprint":                  icSprintf,
		"fmt.Println":                 icNop2,
		"fmt.Printf":                  icNop2,
		"errors.New":                  icErrorsNew,
		"errors.Is":                   icErrorsIs,
		"(*errors.errorString).Error": func(ex *Exec, fn *ssa.Function, a []Value) Value { return &StrVal{S: "<error>"} },
		"time.Now":                    icTimeNow,
		"time.Since":                  icTimeSince,
		"(time.Time).Add":             icTimeAdd,
		"(time.Time).Before":          icTimeBefore,
		"(time.Time).After":           icTimeAfter,
		"(time.Time).Sub":             icTimeSub,
		"(time.Time).UnixNano":        func(ex *Exec, fn *ssa.Function, a []Value) Value { return a[0].(*Agg).E[1] },
		"(time.Time).IsZero": func(ex *Exec, fn *ssa.Function, a []Value) Value {
			return mkCmp("=", a[0].(*Agg).E[1].(*Term), mkConst(64, 0))
		},
		"time.After": func(ex *Exec, fn *ssa.Function, a []Value) Value { return &timerChan{} },
		"time.Sleep": icNop,
		"(time.Duration).Milliseconds": func(ex *Exec, fn *ssa.Function, a []Value) Value {
			return mkBin("bvsdiv", a[0].(*Term), mkConst(64, 1000000))
		},
		"math/rand.Int63n": icRandN,
		"math/rand.Intn":   icRandN,
		"strings.HasPrefix": func(ex *Exec, fn *ssa.Function, a []Value) Value {
			return mkBool(strings.HasPrefix(ex.concStr(a[0].(*StrVal)), ex.concStr(a[1].(*StrVal))))
		},
		"strings.TrimSuffix": func(ex *Exec, fn *ssa.Function, a []Value) Value {
			return &StrVal{S: strings.TrimSuffix(ex.concStr(a[0].(*StrVal)), ex.concStr(a[1].(*StrVal)))}
		},
		"path/filepath.Join": func(ex *Exec, fn *ssa.Function, a []Value) Value {
			var parts []string
			for _, e := range ex.sliceElems(a[0].(*SliceVal)) {
				parts = append(parts, ex.concStr(e.(*StrVal)))
			}
			return &StrVal{S: filepath.Join(parts...)}
		},
		"path/filepath.Dir": func(ex *Exec, fn *ssa.Function, a []Value) Value {
			return &StrVal{S: filepath.Dir(ex.concStr(a[0].(*StrVal)))}
		},
		"path/filepath.Base": func(ex *Exec, fn *ssa.Function, a []Value) Value {
			return &StrVal{S: filepath.Base(ex.concStr(a[0].(*StrVal)))}
		},
		"os.MkdirTemp": func(ex *Exec, fn *ssa.Function, a []Value) Value {
			return &Agg{E: []Value{&StrVal{S: "<tmpdir>"}, &IfaceVal{}}}
		},
		"(*github.com/jmsadair/raft.Configuration).String": func(ex *Exec, fn *ssa.Function, a []Value) Value {
			p := a[0].(*Ptr)
			if p.C == nil {
				ex.end("PANIC", "nil-deref-Configuration.String@"+ex.whereRepo())
			}
			return &StrVal{S: "<configuration>"}
		},
		"github.com/jmsadair/raft/logging.NewLogger": func(ex *Exec, fn *ssa.Function, a []Value) Value {
			res := fn.Signature.Results()
			lt := res.At(0).Type().(*types.Pointer).Elem()
			return &Agg{E: []Value{&Ptr{C: ex.newCell(lt)}, &IfaceVal{}}}
		},
		"github.com/jmsadair/raft/logging.WithLevel": func(ex *Exec, fn *ssa.Function, a []Value) Value {
			return &FuncVal{Name: "opaque:logging.WithLevel"}
		},
	}
	registerIOIntercepts()
}

func icNop(ex *Exec, fn *ssa.Function, a []Value) Value { return nil }

// icNop2 is for functions returning (n int, err error).
func icNop2(ex *Exec, fn *ssa.Function, a []Value) Value {
	return &Agg{E: []Value{mkConst(64, 0), &IfaceVal{}}}
}

func (ex *Exec) prefixIntercept(fn *ssa.Function, name string) handler {
	if strings.HasPrefix(name, loggerPrefix) {
		m := name[len(loggerPrefix):]
		if m == "Fatal" || m == "Fatalf" {
			return func(ex *Exec, fn *ssa.Function, a []Value) Value {
				ex.end("FATAL", ex.whereRepo())
				return nil
			}
		}
		return icNop
	}
	return nil
}

// --- sync ---

func mutexStateCell(ex *Exec, v Value) *Cell {
	p := v.(*Ptr)
	if p.C == nil {
		ex.end("PANIC", "nil-mutex@"+ex.whereRepo())
	}
	return p.C.Kids[0]
}

func icMutexLock(ex *Exec, fn *ssa.Function, a []Value) Value {
	c := mutexStateCell(ex, a[0])
	if t := c.V.(*Term); t.C != 0 {
		ex.end("BLOCKS", "lock-of-held-mutex@"+ex.whereRepo())
	}
	c.V = mkConst(32, 1)
	ex.mutexOps++
	if isRaftMu(c) {
		ex.muHeld++
	}
	return nil
}

func icMutexUnlock(ex *Exec, fn *ssa.Function, a []Value) Value {
	c := mutexStateCell(ex, a[0])
	if t := c.V.(*Term); t.C == 0 {
		ex.end("PANIC", "unlock-of-unlocked-mutex@"+ex.whereRepo())
	}
	c.V = mkConst(32, 0)
	if isRaftMu(c) {
		ex.muHeld--
	}
	return nil
}

// isRaftMu reports whether the mutex state cell belongs to the mu field of a Raft struct.
func isRaftMu(state *Cell) bool {
	mu := state.Parent
	if mu == nil || mu.Parent == nil {
		return false
	}
	n, ok := mu.Parent.T.(*types.Named)
	return ok && n.Obj().Name() == "Raft"
}

func condLField(ex *Exec, c *Cell) *Cell {
	st := c.T.Underlying().(*types.Struct)
	for i := 0; i < st.NumFields(); i++ {
		if st.Field(i).Name() == "L" {
			return c.Kids[i]
		}
	}
	ex.fatal("sync.Cond has no field L")
	return nil
}

func icNewCond(ex *Exec, fn *ssa.Function, a []Value) Value {
	ct := fn.Signature.Results().At(0).Type().(*types.Pointer).Elem()
	c := ex.newCell(ct)
	condLField(ex, c).V = a[0]
	return &Ptr{C: c}
}

func icCondWait(ex *Exec, fn *ssa.Function, a []Value) Value {
	p := a[0].(*Ptr)
	if p.C == nil {
		ex.end("PANIC", "nil-cond@"+ex.whereRepo())
	}
	l := condLField(ex, p.C).V.(*IfaceVal)
	if l.Typ == nil {
		ex.end("PANIC", "cond-without-locker@"+ex.whereRepo())
	}
	lockerT := condLField(ex, p.C).T.Underlying().(*types.Interface)
	var lock, unlock *types.Func
	for i := 0; i < lockerT.NumMethods(); i++ {
		switch lockerT.Method(i).Name() {
		case "Lock":
			lock = lockerT.Method(i)
		case "Unlock":
			unlock = lockerT.Method(i)
		}
	}
	if _, isMutex := l.Val.(*Ptr); isMutex && strings.HasSuffix(l.Typ.String(), "sync.Mutex") {
		// a plain mutex locker: Wait would block until another goroutine signals; no such goroutine exists here
		ex.end("BLOCKS", "cond-wait-without-yield-hook@"+ex.whereRepo())
	}
	ex.callNamed(ex.w.lookupMethod(l.Typ, unlock), []Value{l.Val}, nil, nil)
	ex.callNamed(ex.w.lookupMethod(l.Typ, lock), []Value{l.Val}, nil, nil)
	return nil
}

func icCondSignal(ex *Exec, fn *ssa.Function, a []Value) Value {
	p := a[0].(*Ptr)
	if p.C == nil {
		ex.end("PANIC", "nil-cond@"+ex.whereRepo())
	}
	key := fmt.Sprintf("signals:%d", p.C.id)
	n := 0
	if v, ok := ex.ghost[key]; ok {
		n = int(v.(*Term).C)
	}
	ex.ghost[key] = mkConst(64, uint64(n+1))
	return nil
}

// --- errors / fmt ---

func (ex *Exec) newError(tag string, wraps Value) Value {
	ex.cellSeq++
	c := &Cell{T: types.Typ[types.String], V: &StrVal{S: tag}, Tag: "err:" + tag, id: ex.cellSeq}
	if wraps != nil {
		ex.ghost[fmt.Sprintf("wraps:%d", c.id)] = wraps
	}
	return &IfaceVal{Typ: ex.w.errStringPtr, Val: &Ptr{C: c}}
}

func icErrorf(ex *Exec, fn *ssa.Function, a []Value) Value {
	format := ex.concStr(a[0].(*StrVal))
	var wraps Value
	if strings.Contains(format, "%w") {
		for _, e := range ex.sliceElems(a[1].(*SliceVal)) {
			if iv, ok := e.(*IfaceVal); ok && iv.Typ != nil {
				if inner, ok := iv.Val.(*IfaceVal); ok {
					iv = inner
				}
				if types.Identical(iv.Typ, ex.w.errStringPtr) {
					wraps = iv
				}
			}
		}
	}
	return ex.newError("errorf@"+ex.whereRepo(), wraps)
}

func icSprintf(ex *Exec, fn *ssa.Function, a []Value) Value {
	if s, ok := ex.vfsSprintf(fn, a); ok {
		return s
	}
	return &StrVal{S: "<sprintf@" + ex.whereRepo() + ">"}
}

func icErrorsNew(ex *Exec, fn *ssa.Function, a []Value) Value {
	return ex.newError("new:"+ex.concStr(a[0].(*StrVal)), nil)
}

func icErrorsIs(ex *Exec, fn *ssa.Function, a []Value) Value {
	err := a[0].(*IfaceVal)
	target := a[1].(*IfaceVal)
	for err != nil && err.Typ != nil {
		if ex.valueEq(err, target).IsTrue() {
			return tTrue
		}
		p, ok := err.Val.(*Ptr)
		if !ok || p.C == nil {
			break
		}
		w, ok := ex.ghost[fmt.Sprintf("wraps:%d", p.C.id)]
		if !ok {
			break
		}
		err = w.(*IfaceVal)
	}
	return tFalse
}

// --- time ---

const clockBase = uint64(1) << 60

// now returns the current clock reading. The clock is a concrete base plus whatever the harness
// advanced it by (vAdvanceClock): it does not move during an atomic segment. Only differences of
// instants are observable by the code under test, so a fixed base loses nothing.
func (ex *Exec) now() *Term {
	ex.clockN++
	if ex.lastNow == nil {
		ex.lastNow = mkConst(64, clockBase)
	}
	return ex.lastNow
}

func timeVal(ns *Term) Value {
	return &Agg{E: []Value{mkConst(64, 0), ns, &Ptr{}}}
}

func timeNs(v Value) *Term { return v.(*Agg).E[1].(*Term) }

func icTimeNow(ex *Exec, fn *ssa.Function, a []Value) Value { return timeVal(ex.now()) }
func icTimeSince(ex *Exec, fn *ssa.Function, a []Value) Value {
	return mkBin("bvsub", ex.now(), timeNs(a[0]))
}
func icTimeAdd(ex *Exec, fn *ssa.Function, a []Value) Value {
	return timeVal(mkBin("bvadd", timeNs(a[0]), a[1].(*Term)))
}
func icTimeBefore(ex *Exec, fn *ssa.Function, a []Value) Value {
	return mkCmp("bvslt", timeNs(a[0]), timeNs(a[1]))
}
func icTimeAfter(ex *Exec, fn *ssa.Function, a []Value) Value {
	return mkCmp("bvslt", timeNs(a[1]), timeNs(a[0]))
}
func icTimeSub(ex *Exec, fn *ssa.Function, a []Value) Value {
	return mkBin("bvsub", timeNs(a[0]), timeNs(a[1]))
}

func icRandN(ex *Exec, fn *ssa.Function, a []Value) Value {
	n := a[0].(*Term)
	v := ex.newVar("rand", 64)
	ex.assume(mkAnd(mkCmp("bvsle", mkConst(64, 0), v), mkCmp("bvslt", v, n)))
	return v
}
