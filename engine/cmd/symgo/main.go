package main

import (
	"encoding/json"
	"flag"
	"fmt"
	"os"
	"path/filepath"
	"runtime"
	"sort"
	"strconv"
	"strings"
)

func defaultBounds() map[string]int {
	return map[string]int{
		"unwind":    12,
		"steps":     400000,
		"slice":     8,
		"maxpaths":  200000,
		"solver_ms": 20000,
	}
}

func parseBounds(s string, into map[string]int) {
	for _, kv := range strings.Split(s, ",") {
		if kv == "" {
			continue
		}
		p := strings.SplitN(kv, "=", 2)
		if len(p) != 2 {
			continue
		}
		n, err := strconv.Atoi(p[1])
		if err == nil {
			into[p[0]] = n
		}
	}
}

func main() {
	if len(os.Args) < 2 {
		fmt.Fprintln(os.Stderr, "usage: symgo run|check|replay ...")
		os.Exit(2)
	}
	switch os.Args[1] {
	case "run":
		cmdRun(os.Args[2:])
	case "check":
		os.Exit(cmdCheck(os.Args[2:]))
	case "replay":
		os.Exit(cmdReplay(os.Args[2:]))
	default:
		fmt.Fprintln(os.Stderr, "unknown command", os.Args[1])
		os.Exit(2)
	}
}

func cmdRun(args []string) {
	fs := flag.NewFlagSet("run", flag.ExitOnError)
	repo := fs.String("repo", "/repo", "repository")
	hdir := fs.String("harness-dir", "/verif/harness", "harness overlay directory")
	entry := fs.String("harness", "", "harness entry function")
	bstr := fs.String("bounds", "", "k=v,...")
	workers := fs.Int("workers", runtime.NumCPU(), "workers")
	solver := fs.String("solver", "z3-new", "z3-new|z3|cvc5")
	out := fs.String("json", "", "write result json")
	verbose := fs.Bool("v", false, "print failures with models")
	fs.Parse(args)
	w, err := LoadWorld(*repo, *hdir)
	if err != nil {
		fmt.Fprintln(os.Stderr, "load:", err)
		os.Exit(2)
	}
	b := defaultBounds()
	parseBounds(*bstr, b)
	res := Explore(w, *entry, b, *workers, *solver)
	printResult(res, *verbose)
	if *out != "" {
		j, _ := json.MarshalIndent(res, "", " ")
		os.WriteFile(*out, j, 0o644)
	}
}

func printResult(res *HarnessResult, verbose bool) {
	fmt.Printf("harness %s: paths=%v queries=%d solver=%.2fs wall=%.2fs nontrivial=%d\n", res.Harness, res.Paths, res.Queries, res.SolverSec, res.WallSec, res.Nontrivial)
	labels := make([]string, 0, len(res.Labels))
	for l := range res.Labels {
		labels = append(labels, l)
	}
	sort.Strings(labels)
	for _, l := range labels {
		s := res.Labels[l]
		fmt.Printf("  %-40s checked=%d trivial=%d discharged=%d failed=%d unknown=%d\n", l, s.Checked, s.Trivial, s.Discharged, s.Failed, s.Unknown)
	}
	fmt.Printf("  covers: %v\n", res.Covers)
	fmt.Printf("  counters: %v\n", res.Intercepts)
	for _, n := range res.Notes {
		fmt.Printf("  NOTE: %s\n", n)
	}
	if verbose {
		for _, f := range res.Failures {
			fmt.Printf("  FAIL %s kind=%s detail=%s tags=%v\n", f.Label, f.Kind, f.Detail, f.Tags)
			names := make([]string, 0, len(f.Model))
			for k := range f.Model {
				names = append(names, k)
			}
			sort.Strings(names)
			for _, k := range names {
				fmt.Printf("      %s = %v\n", k, f.Model[k])
			}
		}
	}
}

// cmdReplay re-runs one counterexample file natively against /repo's current tree.
func cmdReplay(args []string) int {
	if len(args) < 1 {
		fmt.Fprintln(os.Stderr, "usage: symgo replay <replay.json>")
		return 2
	}
	b, err := os.ReadFile(args[0])
	if err != nil {
		fmt.Fprintln(os.Stderr, err)
		return 2
	}
	var f Failure
	if err := json.Unmarshal(b, &f); err != nil {
		fmt.Fprintln(os.Stderr, err)
		return 2
	}
	if f.Kind == "LOCKSET" || f.Kind == "ENGINE" {
		fmt.Println("engine-observed fact (no native run):", f.Label, f.Detail)
		return 0
	}
	w, err := LoadWorld("/repo", "/verif/harness")
	if err != nil {
		fmt.Fprintln(os.Stderr, "load:", err)
		return 2
	}
	rp, err := newReplayer("/repo", "/verif/harness", w)
	if err != nil {
		fmt.Fprintln(os.Stderr, err)
		return 2
	}
	defer rp.Close()
	abs, _ := filepath.Abs(args[0])
	ok, out := rp.Replay(abs, &f)
	fmt.Print(out)
	if ok {
		fmt.Printf("REPRODUCED label=%s kind=%s\n", f.Label, f.Kind)
		return 1
	}
	fmt.Printf("NOT-REPRODUCED label=%s kind=%s\n", f.Label, f.Kind)
	return 0
}
