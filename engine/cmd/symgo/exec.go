package main

import (
	"fmt"
	"go/constant"
	"go/token"
	"go/types"
	"sort"
	"strings"

	"golang.org/x/tools/go/ssa"
)

// pathEnd is the panic payload that terminates the current path.
type pathEnd struct {
	Kind   string // PASS, PRUNED, PANIC, FATAL, BLOCKS, UNWIND, UNSUPPORTED, BUDGET
	Detail string
}

type deferred struct {
	fn   Value // *FuncVal or *ssa.Builtin wrapper
	call *ssa.CallCommon
	args []Value
	recv Value
}

type frame struct {
	fn     *ssa.Function
	env    map[ssa.Value]Value
	defers []*deferred
	visits map[int]int
	pos    token.Pos
}

type spawnRec struct {
	fn   *ssa.Function
	args []Value
	bind []Value
	ran  bool
}

// Failure is one failed assertion instance on one path.
type Failure struct {
	Harness string            `json:"harness"`
	Label   string            `json:"label"`
	Kind    string            `json:"kind"` // ASSERT, PANIC, FATAL, BLOCKS
	Detail  string            `json:"detail,omitempty"`
	Tags    map[string]string `json:"tags"`
	Stack   []string          `json:"stack"`
	Model   map[string]any    `json:"model"`
	Image   any               `json:"image,omitempty"`
	Trace   []int8            `json:"-"`
}

type labelStat struct {
	Checked    int // instances evaluated on some path
	Trivial    int // concretely true
	Discharged int // solver said unsat for the negation
	Failed     int
	Unknown    int
}

// Exec is a symbolic interpreter instance; it executes one path at a time.
type Exec struct {
	w      *World
	solver *Solver
	entry  *ssa.Function
	bounds map[string]int

	// per path
	prefix      []int8
	pos         int
	trace       []int8
	pending     [][]int8
	globals     map[*ssa.Global]*Cell
	cellSeq     int
	objSeq      int
	declared    map[string]int    // model variables: name -> width
	strVars     map[string]bool   // variables holding interned string ids
	choices     map[string]uint64 // concrete fork decisions recorded under a name
	occ         map[string]int
	spawned     []*spawnRec
	stack       []*frame
	covers      map[string]bool
	tags        map[string]string
	panicLbl    string
	otherFailed bool // an obligation of a property other than the checked one failed on this path
	fatalLbl    string
	steps       int
	inBg        bool
	pcDirty     bool
	model       map[string]uint64
	pendingA    []pendingAssert
	modelOK     bool
	clockN      int
	lastNow     *Term
	ghost       map[string]Value
	mutexOps    int
	blobSeq     int
	vfs         *VFS
	accessLog   []accessRec
	trackLocks  bool
	prop        string // the property being checked ("" = none): see checkOne
	muHeld      int
	raftCells   int

	// accumulated across paths (owned by this worker)
	res *HarnessResult
}

type accessRec struct {
	Field string
	Write bool
	Held  bool
	Pos   string
	Fn    string
}

func (ex *Exec) fatal(format string, args ...any) {
	panic(pathEnd{Kind: "UNSUPPORTED", Detail: fmt.Sprintf(format, args...) + " @ " + ex.where()})
}

func (ex *Exec) end(kind, detail string) {
	if kind == "PANIC" && ex.otherFailed && strings.HasPrefix(ex.where(), "zz_verif") {
		// harness code faulting on a value whose validity was an obligation of another property that
		// already failed on this path (and is reported there): not an observation about the library
		kind, detail = "PRUNED", "harness fault after a failed obligation of another property: "+detail
	}
	panic(pathEnd{Kind: kind, Detail: detail})
}

func (ex *Exec) where() string {
	for i := len(ex.stack) - 1; i >= 0; i-- {
		fr := ex.stack[i]
		if fr.pos.IsValid() {
			p := ex.w.fset.Position(fr.pos)
			return fmt.Sprintf("%s:%d", shortFile(p.Filename), p.Line)
		}
	}
	return "?"
}

// whereRepo returns the innermost source position that is not in a harness file.
func (ex *Exec) whereRepo() string {
	for i := len(ex.stack) - 1; i >= 0; i-- {
		fr := ex.stack[i]
		if fr.pos.IsValid() {
			p := ex.w.fset.Position(fr.pos)
			f := shortFile(p.Filename)
			if strings.HasPrefix(f, "zz_verif") {
				continue
			}
			return fmt.Sprintf("%s:%d", f, p.Line)
		}
	}
	return ex.where()
}

func shortFile(f string) string {
	if i := strings.LastIndex(f, "/"); i >= 0 {
		return f[i+1:]
	}
	return f
}

func (ex *Exec) stackNames() []string {
	var s []string
	for _, fr := range ex.stack {
		s = append(s, fr.fn.String())
	}
	return s
}

// ---------------------------------------------------------------------------
// path condition and forking

func (ex *Exec) assertPC(c *Term) {
	if c.IsTrue() {
		return
	}
	ex.solver.send("(assert " + ex.solver.smt(c) + ")")
}

func (ex *Exec) checkWith(c *Term) string {
	if c.IsTrue() {
		return ex.solver.CheckCounted()
	}
	if c.IsFalse() {
		return "unsat"
	}
	s := ex.solver.smt(c)
	ex.solver.send("(push 1)")
	ex.solver.send("(assert " + s + ")")
	r := ex.solver.CheckCounted()
	ex.solver.send("(pop 1)")
	return r
}

// checkWithModel is checkWith that also fetches a model when the answer is sat.
func (ex *Exec) checkWithModel(c *Term) (string, map[string]uint64) {
	if c.IsFalse() {
		return "unsat", nil
	}
	s := ex.solver.smt(c)
	ex.solver.send("(push 1)")
	ex.solver.send("(assert " + s + ")")
	r := ex.solver.CheckCounted()
	var m map[string]uint64
	if r == "sat" {
		m = ex.solver.Model(ex.declared)
	}
	ex.solver.send("(pop 1)")
	return r, m
}

func (ex *Exec) setModel(m map[string]uint64) {
	if m == nil {
		ex.modelOK = false
		return
	}
	ex.model = m
	ex.modelOK = true
	ex.pcDirty = false
}

// branch decides a symbolic boolean, forking the exploration when both sides are feasible.
// A model of the current path condition, when one is at hand, settles one side without a query.
func (ex *Exec) branch(c *Term) bool {
	if c.IsConst() {
		return c.C == 1
	}
	if ex.pos < len(ex.prefix) {
		d := ex.prefix[ex.pos]
		ex.pos++
		ex.trace = append(ex.trace, d)
		switch d {
		case 1:
			ex.assertPC(c)
			ex.modelOK = false
			return true
		case 0:
			ex.assertPC(mkNot(c))
			ex.modelOK = false
			return false
		case 3: // forced true (other side infeasible)
			return true
		case 2:
			return false
		}
	}
	ex.flushAsserts()
	ex.pos++
	ex.res.Intercepts["q:branch-new"]++
	known := -1
	if ex.modelOK {
		if c.eval(ex.model) == 1 {
			known = 1
		} else {
			known = 0
		}
	}
	var rt, rf string
	var mT, mF map[string]uint64
	if known == 1 {
		rt = "sat"
		ex.res.Intercepts["q:saved-by-model"]++
	} else {
		rt, mT = ex.checkWithModel(c)
	}
	if rt == "unsat" {
		if known != 0 {
			if ex.pcDirty {
				// the path condition itself may have become infeasible through an assume
				r, m := ex.checkWithModel(mkNot(c))
				if r == "unsat" {
					ex.trace = append(ex.trace, 2)
					ex.end("PRUNED", "assume made the path infeasible")
				}
				ex.pcDirty = false
				ex.setModel(m)
			}
		}
		ex.trace = append(ex.trace, 2)
		return false
	}
	if rt == "sat" {
		ex.pcDirty = false
	}
	if known == 0 {
		rf = "sat"
		ex.res.Intercepts["q:saved-by-model"]++
	} else {
		rf, mF = ex.checkWithModel(mkNot(c))
	}
	_ = mF
	if rf == "unsat" {
		ex.trace = append(ex.trace, 3)
		if known != 1 {
			ex.setModel(mT)
		}
		return true
	}
	if rt == "unknown" || rf == "unknown" {
		ex.res.Inconclusive("solver unknown at branch " + ex.where())
	}
	// both feasible: schedule the false side, continue on the true side
	alt := make([]int8, len(ex.trace)+1)
	copy(alt, ex.trace)
	alt[len(ex.trace)] = 0
	ex.pending = append(ex.pending, alt)
	ex.trace = append(ex.trace, 1)
	ex.assertPC(c)
	if known != 1 {
		ex.setModel(mT)
	}
	return true
}

// assume adds c to the path condition. Feasibility is checked lazily (at the next branch,
// assertion or path end), so a sequence of assumptions costs no solver query.
func (ex *Exec) assume(c *Term) {
	if c.IsTrue() {
		return
	}
	if c.IsFalse() {
		ex.flushAsserts()
		ex.end("PRUNED", "assume(false)")
	}
	if ex.pos >= len(ex.prefix) {
		ex.flushAsserts()
	}
	ex.assertPC(c)
	if ex.pos >= len(ex.prefix) {
		if ex.modelOK && c.eval(ex.model) == 1 {
			return // the model at hand still satisfies the path condition
		}
		ex.modelOK = false
		ex.pcDirty = true
	} else {
		ex.modelOK = false
	}
}

// ensureFeasible prunes the path if pending assumptions made it infeasible.
func (ex *Exec) ensureFeasible() {
	if !ex.pcDirty || ex.modelOK {
		return
	}
	r := ex.solver.Check()
	if r == "unsat" {
		ex.end("PRUNED", "assume made the path infeasible")
	}
	if r == "unknown" {
		ex.res.Inconclusive("solver unknown at feasibility check " + ex.where())
	}
	ex.pcDirty = false
}

// concretizeInt forks until t has a concrete value within [lo, hi]. Returns -1 if no value in range is feasible.
func (ex *Exec) concretizeInt(t *Term, lo, hi int) int {
	if t.IsConst() {
		v := int(signExt(t.C, t.W))
		if t.W == 64 && t.C > uint64(1)<<62 {
			return -1
		}
		if v < lo || v > hi {
			return -1
		}
		return v
	}
	for k := lo; k <= hi; k++ {
		if ex.branch(mkCmp("=", t, mkConst(t.W, uint64(k)))) {
			return k
		}
	}
	return -1
}

// ---------------------------------------------------------------------------
// variables

func (ex *Exec) freshName(name string) string {
	n := ex.occ[name]
	ex.occ[name] = n + 1
	if n == 0 {
		return name
	}
	return fmt.Sprintf("%s#%d", name, n)
}

func (ex *Exec) newVar(name string, w int) *Term {
	name = ex.freshName(name)
	ex.declared[name] = w
	ex.solver.send(fmt.Sprintf("(declare-const %s %s)", smtName(name), sortOf(w)))
	return mkVar(name, w)
}

// ---------------------------------------------------------------------------
// value access

func (ex *Exec) constValue(c *ssa.Const) Value {
	t := c.Type()
	if c.Value == nil {
		return ex.zero(t)
	}
	switch u := t.Underlying().(type) {
	case *types.Basic:
		if w, signed, ok := intWidth(u); ok {
			if signed {
				v, _ := constant.Int64Val(constant.ToInt(c.Value))
				return mkConst(w, uint64(v))
			}
			v, _ := constant.Uint64Val(constant.ToInt(c.Value))
			return mkConst(w, v)
		}
		switch u.Kind() {
		case types.Bool, types.UntypedBool:
			return mkBool(constant.BoolVal(c.Value))
		case types.String, types.UntypedString:
			return &StrVal{S: constant.StringVal(c.Value)}
		case types.Float64, types.Float32, types.UntypedFloat:
			f, _ := constant.Float64Val(c.Value)
			return &FloatVal{F: f}
		}
	}
	ex.fatal("const of type %s", t)
	return nil
}

func (ex *Exec) globalCell(g *ssa.Global) *Cell {
	if c, ok := ex.globals[g]; ok {
		return c
	}
	c := ex.newCell(g.Type().(*types.Pointer).Elem())
	c.Tag = "global:" + g.Name()
	ex.globals[g] = c
	// package-level sentinel errors created by errors.New in var blocks
	if g.Pkg != nil && isErrorType(c.T) {
		name := g.Pkg.Pkg.Path() + "." + g.Name()
		if a, ok := sentinelAlias[name]; ok {
			name = a
		}
		c.V = &IfaceVal{Typ: ex.w.errStringPtr, Val: &Ptr{C: ex.sentinel(name)}}
	}
	return c
}

// sentinels that the standard library defines as aliases of one another
var sentinelAlias = map[string]string{
	"os.ErrNotExist":        "io/fs.ErrNotExist",
	"os.ErrExist":           "io/fs.ErrExist",
	"os.ErrClosed":          "io/fs.ErrClosed",
	"os.ErrPermission":      "io/fs.ErrPermission",
	"os.ErrInvalid":         "io/fs.ErrInvalid",
	"path/filepath.SkipDir": "io/fs.SkipDir",
	"path/filepath.SkipAll": "io/fs.SkipAll",
}

func isErrorType(t types.Type) bool {
	n, ok := t.(*types.Named)
	return ok && n.Obj().Pkg() == nil && n.Obj().Name() == "error"
}

// sentinel returns the per-path unique object standing for a named sentinel error.
func (ex *Exec) sentinel(name string) *Cell {
	key := "sentinel:" + name
	if v, ok := ex.ghost[key]; ok {
		return v.(*Ptr).C
	}
	c := &Cell{T: types.Typ[types.String], V: &StrVal{S: name}, Tag: key}
	ex.cellSeq++
	c.id = ex.cellSeq
	ex.ghost[key] = &Ptr{C: c}
	return c
}

func (ex *Exec) get(fr *frame, v ssa.Value) Value {
	switch x := v.(type) {
	case *ssa.Const:
		return ex.constValue(x)
	case *ssa.Global:
		return &Ptr{C: ex.globalCell(x)}
	case *ssa.Function:
		return &FuncVal{Fn: x}
	case *ssa.Builtin:
		return &FuncVal{Name: "builtin:" + x.Name()}
	}
	r, ok := fr.env[v]
	if !ok {
		ex.fatal("unbound ssa value %s (%T) in %s", v.Name(), v, fr.fn)
	}
	return r
}

// ---------------------------------------------------------------------------
// running functions

func (ex *Exec) callFunction(fn *ssa.Function, args []Value, bind []Value) Value {
	if len(ex.stack) > 60 {
		ex.fatal("call depth exceeded")
	}
	if fn.Blocks == nil {
		ex.fatal("function without body: %s", fn)
	}
	ex.w.noteFunc(ex.res, fn)
	fr := &frame{fn: fn, env: make(map[ssa.Value]Value, 32), visits: map[int]int{}}
	for i, p := range fn.Params {
		if i >= len(args) {
			ex.fatal("too few args for %s", fn)
		}
		fr.env[p] = args[i]
	}
	for i, fv := range fn.FreeVars {
		fr.env[fv] = bind[i]
	}
	ex.stack = append(ex.stack, fr)
	defer func() { ex.stack = ex.stack[:len(ex.stack)-1] }()

	var prev *ssa.BasicBlock
	blk := fn.Blocks[0]
	for {
		fr.visits[blk.Index]++
		if fr.visits[blk.Index] > ex.bounds["unwind"] {
			ex.end("UNWIND", fmt.Sprintf("block %d of %s visited more than %d times", blk.Index, fn, ex.bounds["unwind"]))
		}
		var next *ssa.BasicBlock
		// phis first (parallel assignment)
		nphi := 0
		var phiVals []Value
		for _, ins := range blk.Instrs {
			phi, ok := ins.(*ssa.Phi)
			if !ok {
				break
			}
			nphi++
			idx := -1
			for i, p := range blk.Preds {
				if p == prev {
					idx = i
					break
				}
			}
			if idx < 0 {
				ex.fatal("phi without matching predecessor")
			}
			phiVals = append(phiVals, ex.get(fr, phi.Edges[idx]))
		}
		for i := 0; i < nphi; i++ {
			fr.env[blk.Instrs[i].(*ssa.Phi)] = phiVals[i]
		}
		for _, ins := range blk.Instrs[nphi:] {
			ex.steps++
			if ex.steps > ex.bounds["steps"] {
				ex.end("BUDGET", "instruction budget exceeded")
			}
			if p := ins.Pos(); p.IsValid() {
				fr.pos = p
			}
			switch i := ins.(type) {
			case *ssa.If:
				c := ex.get(fr, i.Cond).(*Term)
				if ex.branch(c) {
					next = blk.Succs[0]
				} else {
					next = blk.Succs[1]
				}
			case *ssa.Jump:
				next = blk.Succs[0]
			case *ssa.Return:
				switch len(i.Results) {
				case 0:
					return nil
				case 1:
					return ex.get(fr, i.Results[0])
				default:
					e := make([]Value, len(i.Results))
					for k, r := range i.Results {
						e[k] = ex.get(fr, r)
					}
					return &Agg{E: e}
				}
			case *ssa.Panic:
				v := ex.get(fr, i.X)
				msg := ""
				if iv, ok := v.(*IfaceVal); ok {
					if s, ok := iv.Val.(*StrVal); ok {
						msg = s.S
					}
				}
				ex.end("PANIC", "explicit:"+msg+"@"+ex.whereRepo())
			case *ssa.RunDefers:
				ex.runDefers(fr)
			default:
				ex.step(fr, ins)
			}
		}
		if next == nil {
			ex.fatal("block fell through in %s", fn)
		}
		prev = blk
		blk = next
	}
}

func (ex *Exec) runDefers(fr *frame) {
	for len(fr.defers) > 0 {
		d := fr.defers[len(fr.defers)-1]
		fr.defers = fr.defers[:len(fr.defers)-1]
		ex.invoke(fr, d.call, d.fn, d.recv, d.args)
	}
}

// resolveCall evaluates the callee and arguments of a call site.
func (ex *Exec) resolveCall(fr *frame, c *ssa.CallCommon) (fn Value, recv Value, args []Value) {
	if c.IsInvoke() {
		recv = ex.get(fr, c.Value)
	} else {
		fn = ex.get(fr, c.Value)
	}
	args = make([]Value, len(c.Args))
	for i, a := range c.Args {
		args[i] = ex.get(fr, a)
	}
	return
}

// invoke performs a call given evaluated callee/receiver/args.
func (ex *Exec) invoke(fr *frame, c *ssa.CallCommon, fnv Value, recv Value, args []Value) Value {
	if c.IsInvoke() {
		iv, ok := recv.(*IfaceVal)
		if !ok || iv.Typ == nil {
			ex.end("PANIC", "nil-interface-call:"+c.Method.Name()+"@"+ex.whereRepo())
		}
		m := ex.w.lookupMethod(iv.Typ, c.Method)
		if m == nil {
			ex.fatal("method %s not found on %s", c.Method.Name(), iv.Typ)
		}
		return ex.callNamed(m, append([]Value{iv.Val}, args...), nil, c)
	}
	f := fnv.(*FuncVal)
	if f.Fn == nil && f.Name == "" {
		ex.end("PANIC", "nil-func-call@"+ex.whereRepo())
	}
	if strings.HasPrefix(f.Name, "builtin:") {
		return ex.builtin(fr, f.Name[8:], args, c)
	}
	return ex.callNamed(f.Fn, args, f.Bind, c)
}

func (ex *Exec) callNamed(fn *ssa.Function, args []Value, bind []Value, c *ssa.CallCommon) Value {
	name := fn.String()
	if h, ok := intercepts[name]; ok {
		return h(ex, fn, args)
	}
	if fn.Pkg != nil && fn.Pkg == ex.w.raftPkg {
		if h, ok := intrinsics[fn.Name()]; ok {
			return h(ex, fn, args)
		}
	}
	if h := ex.prefixIntercept(fn, name); h != nil {
		return h(ex, fn, args)
	}
	if fn.Blocks == nil {
		ex.fatal("no body and no intercept for %s", name)
	}
	if !ex.w.allowed(fn) {
		ex.fatal("call into unmodelled package: %s", name)
	}
	return ex.callFunction(fn, args, bind)
}

// ---------------------------------------------------------------------------
// instructions

func (ex *Exec) step(fr *frame, ins ssa.Instruction) {
	switch i := ins.(type) {
	case *ssa.DebugRef:
	case *ssa.Alloc:
		c := ex.newCell(i.Type().(*types.Pointer).Elem())
		fr.env[i] = &Ptr{C: c}
	case *ssa.UnOp:
		fr.env[i] = ex.unop(fr, i)
	case *ssa.BinOp:
		fr.env[i] = ex.binop(i.Op, ex.get(fr, i.X), ex.get(fr, i.Y), i.X.Type())
	case *ssa.Store:
		p := ex.get(fr, i.Addr).(*Ptr)
		if p.C == nil {
			ex.end("PANIC", "nil-deref-store@"+ex.whereRepo())
		}
		ex.noteAccess(p.C, true)
		ex.store(p.C, ex.get(fr, i.Val))
	case *ssa.FieldAddr:
		p := ex.get(fr, i.X).(*Ptr)
		if p.C == nil {
			ex.end("PANIC", "nil-deref-field@"+ex.whereRepo())
		}
		fr.env[i] = &Ptr{C: p.C.Kids[i.Field]}
	case *ssa.Field:
		a := ex.get(fr, i.X).(*Agg)
		fr.env[i] = a.E[i.Field]
	case *ssa.IndexAddr:
		fr.env[i] = ex.indexAddr(fr, i)
	case *ssa.Index:
		x := ex.get(fr, i.X)
		idx := ex.get(fr, i.Index).(*Term)
		switch a := x.(type) {
		case *Agg:
			k := ex.boundedIndex(idx, len(a.E))
			fr.env[i] = a.E[k]
		case *StrVal:
			s := ex.concStr(a)
			k := ex.boundedIndex(idx, len(s))
			fr.env[i] = mkConst(8, uint64(s[k]))
		default:
			ex.fatal("Index on %T", x)
		}
	case *ssa.Call:
		fnv, recv, args := ex.resolveCall(fr, &i.Call)
		r := ex.invoke(fr, &i.Call, fnv, recv, args)
		fr.env[i] = r
	case *ssa.Defer:
		fnv, recv, args := ex.resolveCall(fr, &i.Call)
		fr.defers = append(fr.defers, &deferred{fn: fnv, call: &i.Call, args: args, recv: recv})
	case *ssa.Go:
		fnv, recv, args := ex.resolveCall(fr, &i.Call)
		if i.Call.IsInvoke() {
			iv := recv.(*IfaceVal)
			m := ex.w.lookupMethod(iv.Typ, i.Call.Method)
			ex.spawned = append(ex.spawned, &spawnRec{fn: m, args: append([]Value{iv.Val}, args...)})
		} else {
			f := fnv.(*FuncVal)
			if f.Fn == nil {
				ex.fatal("go on builtin")
			}
			ex.spawned = append(ex.spawned, &spawnRec{fn: f.Fn, args: args, bind: f.Bind})
		}
	case *ssa.MakeInterface:
		fr.env[i] = &IfaceVal{Typ: i.X.Type(), Val: ex.get(fr, i.X)}
	case *ssa.ChangeInterface:
		fr.env[i] = ex.get(fr, i.X)
	case *ssa.ChangeType:
		fr.env[i] = ex.get(fr, i.X)
	case *ssa.Convert:
		fr.env[i] = ex.convert(ex.get(fr, i.X), i.X.Type(), i.Type())
	case *ssa.MultiConvert:
		fr.env[i] = ex.convert(ex.get(fr, i.X), i.X.Type(), i.Type())
	case *ssa.TypeAssert:
		fr.env[i] = ex.typeAssert(fr, i)
	case *ssa.Extract:
		t := ex.get(fr, i.Tuple).(*Agg)
		fr.env[i] = t.E[i.Index]
	case *ssa.MakeClosure:
		f := i.Fn.(*ssa.Function)
		b := make([]Value, len(i.Bindings))
		for k, x := range i.Bindings {
			b[k] = ex.get(fr, x)
		}
		fr.env[i] = &FuncVal{Fn: f, Bind: b}
	case *ssa.MakeMap:
		ex.objSeq++
		fr.env[i] = &MapObj{T: i.Type().Underlying().(*types.Map), id: ex.objSeq}
	case *ssa.MakeChan:
		n := ex.concretizeInt(ex.get(fr, i.Size).(*Term), 0, 64)
		if n < 0 {
			ex.fatal("chan size out of range")
		}
		ex.objSeq++
		fr.env[i] = &ChanObj{Cap: n, id: ex.objSeq}
	case *ssa.MakeSlice:
		ln := ex.get(fr, i.Len).(*Term)
		cp := ex.get(fr, i.Cap).(*Term)
		elem := i.Type().Underlying().(*types.Slice).Elem()
		if !ln.IsConst() && isByte(elem) {
			// byte slice of symbolic length: opaque blob buffer
			_, lsigned := typeSigned(i.Len.Type())
			l64 := mkResize(ln, 64, lsigned)
			if lsigned && !ex.branch(mkCmp("bvsle", mkConst(64, 0), l64)) {
				ex.end("PANIC", "makeslice-len-negative@"+ex.whereRepo())
			}
			fr.env[i] = ex.makeBlobBuffer(l64)
			break
		}
		max := ex.bounds["slice"]
		if ln.IsConst() && ln.C <= 1<<16 {
			max = int(ln.C) // a concrete length needs no bound
		}
		l := ex.concretizeInt(ln, 0, max)
		if l < 0 {
			if ln.IsConst() {
				ex.end("PANIC", "makeslice-len@"+ex.whereRepo())
			}
			ex.end("UNWIND", "make([]T, n) with n beyond slice bound @"+ex.where())
		}
		c := l
		if !sameTerm(ln, cp) {
			c = ex.concretizeInt(cp, 0, 4*max+64)
			if c < 0 {
				if cp.IsConst() {
					ex.end("PANIC", "makeslice-cap@"+ex.whereRepo())
				}
				ex.end("UNWIND", "make([]T, n, c) with c beyond slice bound @"+ex.where())
			}
			if c < l {
				ex.end("PANIC", "makeslice-cap<len@"+ex.whereRepo())
			}
		}
		arr := ex.newArrayCell(elem, c)
		fr.env[i] = &SliceVal{Arr: arr, Off: 0, Len: l, Cap: c}
	case *ssa.Slice:
		fr.env[i] = ex.sliceOp(fr, i)
	case *ssa.Lookup:
		fr.env[i] = ex.lookup(fr, i)
	case *ssa.MapUpdate:
		m := ex.get(fr, i.Map).(*MapObj)
		if m == nil {
			ex.end("PANIC", "nil-map-store@"+ex.whereRepo())
		}
		ex.mapSet(m, ex.get(fr, i.Key), ex.get(fr, i.Value))
	case *ssa.Range:
		fr.env[i] = ex.makeRange(ex.get(fr, i.X))
	case *ssa.Next:
		fr.env[i] = ex.next(ex.get(fr, i.Iter).(*rangeIter), i)
	case *ssa.Send:
		ch := ex.get(fr, i.Chan).(*ChanObj)
		if ch == nil {
			ex.end("BLOCKS", "send-on-nil-chan@"+ex.whereRepo())
		}
		if len(ch.Buf) >= ch.Cap {
			ex.end("BLOCKS", "send-on-full-chan@"+ex.whereRepo())
		}
		ch.Buf = append(ch.Buf, ex.get(fr, i.X))
	case *ssa.Select:
		fr.env[i] = ex.selectOp(fr, i)
	case *ssa.SliceToArrayPointer:
		ex.fatal("SliceToArrayPointer")
	default:
		ex.fatal("unsupported instruction %T: %s", ins, ins)
	}
}

func isByte(t types.Type) bool {
	b, ok := t.Underlying().(*types.Basic)
	return ok && (b.Kind() == types.Uint8)
}

func (ex *Exec) boundedIndex(idx *Term, n int) int {
	inb := mkCmp("bvult", mkResize(idx, 64, true), mkConst(64, uint64(n)))
	if !ex.branch(inb) {
		ex.end("PANIC", "index-out-of-range@"+ex.whereRepo())
	}
	k := ex.concretizeInt(idx, 0, n-1)
	if k < 0 {
		ex.end("PRUNED", "index concretization infeasible")
	}
	return k
}

func (ex *Exec) indexAddr(fr *frame, i *ssa.IndexAddr) Value {
	x := ex.get(fr, i.X)
	idx := ex.get(fr, i.Index).(*Term)
	switch a := x.(type) {
	case *Ptr: // pointer to array
		if a.C == nil {
			ex.end("PANIC", "nil-deref-index@"+ex.whereRepo())
		}
		k := ex.boundedIndex(idx, len(a.C.Kids))
		return &Ptr{C: a.C.Kids[k]}
	case *SliceVal:
		if a.Blob != nil {
			ex.fatal("index into opaque blob")
		}
		k := ex.boundedIndex(idx, a.Len)
		return &Ptr{C: a.Arr.Kids[a.Off+k]}
	}
	ex.fatal("IndexAddr on %T", x)
	return nil
}

func (ex *Exec) unop(fr *frame, i *ssa.UnOp) Value {
	x := ex.get(fr, i.X)
	switch i.Op {
	case token.MUL:
		p := x.(*Ptr)
		if p.C == nil {
			ex.end("PANIC", "nil-deref-load@"+ex.whereRepo())
		}
		ex.noteAccess(p.C, false)
		return ex.load(p.C)
	case token.NOT:
		return mkNot(x.(*Term))
	case token.SUB:
		if f, ok := x.(*FloatVal); ok {
			return &FloatVal{F: -f.F}
		}
		return mkNeg(x.(*Term))
	case token.XOR:
		return mkBvNot(x.(*Term))
	case token.ARROW:
		ch := x.(*ChanObj)
		if ch == nil || (len(ch.Buf) == 0 && !ch.Closed) {
			ex.end("BLOCKS", "recv-on-empty-chan@"+ex.whereRepo())
		}
		var v Value
		ok := true
		if len(ch.Buf) > 0 {
			v = ch.Buf[0]
			ch.Buf = ch.Buf[1:]
		} else {
			v = ex.zero(i.X.Type().Underlying().(*types.Chan).Elem())
			ok = false
		}
		if i.CommaOk {
			return &Agg{E: []Value{v, mkBool(ok)}}
		}
		return v
	}
	ex.fatal("unop %s", i.Op)
	return nil
}

func typeSigned(t types.Type) (int, bool) {
	if b, ok := t.Underlying().(*types.Basic); ok {
		if w, s, ok := intWidth(b); ok {
			return w, s
		}
	}
	return 0, false
}

func (ex *Exec) binop(op token.Token, x, y Value, xt types.Type) Value {
	switch a := x.(type) {
	case *Term:
		b := y.(*Term)
		if a.W == 0 { // bools
			switch op {
			case token.EQL:
				return mkCmp("=", a, b)
			case token.NEQ:
				return mkNot(mkCmp("=", a, b))
			case token.AND:
				return mkAnd(a, b)
			case token.OR:
				return mkOr(a, b)
			}
			ex.fatal("bool binop %s", op)
		}
		_, signed := typeSigned(xt)
		switch op {
		case token.SHL, token.SHR:
			// shift count may have a different width
			if b.W != a.W {
				if b.W > a.W && !b.IsConst() {
					// large symbolic shift counts: saturate
					big := mkCmp("bvule", mkConst(b.W, uint64(a.W)), b)
					nb := mkIte(big, mkConst(a.W, uint64(a.W)), mkResize(b, a.W, false))
					b = nb
				} else if b.IsConst() && b.C >= uint64(a.W) {
					b = mkConst(a.W, uint64(a.W))
				} else {
					b = mkResize(b, a.W, false)
				}
			}
			if op == token.SHL {
				return mkBin("bvshl", a, b)
			}
			if signed {
				return mkBin("bvashr", a, b)
			}
			return mkBin("bvlshr", a, b)
		}
		if a.W != b.W {
			ex.fatal("binop width mismatch %d %d op %s", a.W, b.W, op)
		}
		switch op {
		case token.ADD:
			return mkBin("bvadd", a, b)
		case token.SUB:
			return mkBin("bvsub", a, b)
		case token.MUL:
			return mkBin("bvmul", a, b)
		case token.QUO, token.REM:
			nz := mkNot(mkCmp("=", b, mkConst(b.W, 0)))
			if !ex.branch(nz) {
				ex.end("PANIC", "divide-by-zero@"+ex.whereRepo())
			}
			if op == token.QUO {
				if signed {
					return mkBin("bvsdiv", a, b)
				}
				return mkBin("bvudiv", a, b)
			}
			if signed {
				return mkBin("bvsrem", a, b)
			}
			return mkBin("bvurem", a, b)
		case token.AND:
			return mkBin("bvand", a, b)
		case token.OR:
			return mkBin("bvor", a, b)
		case token.XOR:
			return mkBin("bvxor", a, b)
		case token.AND_NOT:
			return mkBin("bvand", a, mkBvNot(b))
		case token.EQL:
			return mkCmp("=", a, b)
		case token.NEQ:
			return mkNot(mkCmp("=", a, b))
		case token.LSS:
			if signed {
				return mkCmp("bvslt", a, b)
			}
			return mkCmp("bvult", a, b)
		case token.LEQ:
			if signed {
				return mkCmp("bvsle", a, b)
			}
			return mkCmp("bvule", a, b)
		case token.GTR:
			if signed {
				return mkCmp("bvslt", b, a)
			}
			return mkCmp("bvult", b, a)
		case token.GEQ:
			if signed {
				return mkCmp("bvsle", b, a)
			}
			return mkCmp("bvule", b, a)
		}
		ex.fatal("int binop %s", op)
	case *StrVal:
		b := y.(*StrVal)
		switch op {
		case token.EQL:
			return ex.strEq(a, b)
		case token.NEQ:
			return mkNot(ex.strEq(a, b))
		case token.ADD:
			return &StrVal{S: ex.concStr(a) + ex.concStr(b)}
		case token.LSS:
			return mkBool(ex.concStr(a) < ex.concStr(b))
		case token.LEQ:
			return mkBool(ex.concStr(a) <= ex.concStr(b))
		case token.GTR:
			return mkBool(ex.concStr(a) > ex.concStr(b))
		case token.GEQ:
			return mkBool(ex.concStr(a) >= ex.concStr(b))
		}
		ex.fatal("string binop %s", op)
	case *FloatVal:
		b := y.(*FloatVal)
		switch op {
		case token.ADD:
			return &FloatVal{F: a.F + b.F}
		case token.SUB:
			return &FloatVal{F: a.F - b.F}
		case token.MUL:
			return &FloatVal{F: a.F * b.F}
		case token.QUO:
			return &FloatVal{F: a.F / b.F}
		case token.LSS:
			return mkBool(a.F < b.F)
		case token.GTR:
			return mkBool(a.F > b.F)
		case token.EQL:
			return mkBool(a.F == b.F)
		case token.NEQ:
			return mkBool(a.F != b.F)
		}
		ex.fatal("float binop %s", op)
	default:
		eq := ex.valueEq(x, y)
		switch op {
		case token.EQL:
			return eq
		case token.NEQ:
			return mkNot(eq)
		}
		ex.fatal("binop %s on %T", op, x)
	}
	return nil
}

// valueEq returns a Bool term for x == y (Go semantics for comparable values).
func (ex *Exec) valueEq(x, y Value) *Term {
	switch a := x.(type) {
	case *Term:
		b, ok := y.(*Term)
		if !ok || a.W != b.W {
			return tFalse
		}
		return mkCmp("=", a, b)
	case *StrVal:
		b, ok := y.(*StrVal)
		if !ok {
			return tFalse
		}
		return ex.strEq(a, b)
	case *Ptr:
		b, ok := y.(*Ptr)
		if !ok {
			return tFalse
		}
		return mkBool(a.C == b.C)
	case *MapObj:
		b, ok := y.(*MapObj)
		return mkBool(ok && a == b)
	case *ChanObj:
		b, ok := y.(*ChanObj)
		return mkBool(ok && a == b)
	case *FuncVal:
		b, ok := y.(*FuncVal)
		if !ok {
			return tFalse
		}
		return mkBool(a.Fn == b.Fn && a.Name == b.Name && len(a.Bind) == 0 && len(b.Bind) == 0)
	case *SliceVal:
		b, ok := y.(*SliceVal)
		if !ok {
			return tFalse
		}
		// only comparison with nil is legal in Go
		return mkBool(a.Arr == nil && b.Arr == nil && a.Blob == nil && b.Blob == nil)
	case *IfaceVal:
		b, ok := y.(*IfaceVal)
		if !ok {
			return tFalse
		}
		if a.Typ == nil || b.Typ == nil {
			return mkBool(a.Typ == nil && b.Typ == nil)
		}
		if !types.Identical(a.Typ, b.Typ) {
			return tFalse
		}
		return ex.valueEq(a.Val, b.Val)
	case *Agg:
		b, ok := y.(*Agg)
		if !ok || len(a.E) != len(b.E) {
			return tFalse
		}
		r := tTrue
		for i := range a.E {
			r = mkAnd(r, ex.valueEq(a.E[i], b.E[i]))
		}
		return r
	case *FloatVal:
		b, ok := y.(*FloatVal)
		return mkBool(ok && a.F == b.F)
	}
	ex.fatal("valueEq on %T", x)
	return nil
}

// --- strings ---

func (ex *Exec) strID(s *StrVal) *Term {
	if s.Sym != nil {
		return s.Sym
	}
	return mkConst(16, uint64(ex.w.intern(s.S)))
}

func (ex *Exec) strEq(a, b *StrVal) *Term {
	if a.Sym == nil && b.Sym == nil {
		return mkBool(a.S == b.S)
	}
	return mkCmp("=", ex.strID(a), ex.strID(b))
}

// concStr forces a string to be concrete, forking over its universe if it is symbolic.
func (ex *Exec) concStr(s *StrVal) string {
	if s.Sym == nil {
		return s.S
	}
	if s.Sym.IsConst() {
		return ex.w.internRev(int(s.Sym.C))
	}
	for _, k := range s.Univ {
		if ex.branch(mkCmp("=", s.Sym, mkConst(16, uint64(k)))) {
			return ex.w.internRev(k)
		}
	}
	ex.end("PRUNED", "string concretization infeasible")
	return ""
}

// --- conversions ---

func (ex *Exec) convert(x Value, from, to types.Type) Value {
	fu, tu := from.Underlying(), to.Underlying()
	if fb, ok := fu.(*types.Basic); ok {
		if tb, ok := tu.(*types.Basic); ok {
			fw, fs, fint := intWidth(fb)
			tw, _, tint := intWidth(tb)
			_ = fw
			if fint && tint {
				return mkResize(x.(*Term), tw, fs)
			}
			if fint && tb.Info()&types.IsString != 0 {
				t := x.(*Term)
				if !t.IsConst() {
					ex.fatal("string(int) on symbolic")
				}
				return &StrVal{S: string(rune(t.C))}
			}
			if fb.Info()&types.IsString != 0 && tb.Info()&types.IsString != 0 {
				return x
			}
			if fint && tb.Info()&types.IsFloat != 0 {
				t := x.(*Term)
				if !t.IsConst() {
					return &FloatVal{}
				}
				if fs {
					return &FloatVal{F: float64(signExt(t.C, t.W))}
				}
				return &FloatVal{F: float64(t.C)}
			}
			if fb.Info()&types.IsFloat != 0 && tint {
				return mkConst(tw, uint64(int64(x.(*FloatVal).F)))
			}
			if fb.Info()&types.IsFloat != 0 && tb.Info()&types.IsFloat != 0 {
				return x
			}
			if fb.Kind() == types.UnsafePointer || tb.Kind() == types.UnsafePointer {
				return x
			}
		}
		if ts, ok := tu.(*types.Slice); ok && fb.Info()&types.IsString != 0 {
			s := ex.concStr(x.(*StrVal))
			if isByte(ts.Elem()) {
				arr := ex.newArrayCell(ts.Elem(), len(s))
				for k := 0; k < len(s); k++ {
					arr.Kids[k].V = mkConst(8, uint64(s[k]))
				}
				return &SliceVal{Arr: arr, Len: len(s), Cap: len(s)}
			}
		}
	}
	if fs, ok := fu.(*types.Slice); ok {
		if tb, ok := tu.(*types.Basic); ok && tb.Info()&types.IsString != 0 && isByte(fs.Elem()) {
			sv := x.(*SliceVal)
			if sv.Blob != nil {
				return &StrVal{S: fmt.Sprintf("<blob%d>", sv.Blob.ID)}
			}
			bs := make([]byte, sv.Len)
			for k := 0; k < sv.Len; k++ {
				t := sv.Arr.Kids[sv.Off+k].V.(*Term)
				if !t.IsConst() {
					// opaque string derived from symbolic bytes
					return &StrVal{S: fmt.Sprintf("<symbytes%d>", sv.Arr.id)}
				}
				bs[k] = byte(t.C)
			}
			return &StrVal{S: string(bs)}
		}
	}
	if _, ok := fu.(*types.Pointer); ok {
		return x
	}
	ex.fatal("convert %s -> %s", from, to)
	return nil
}

func (ex *Exec) typeAssert(fr *frame, i *ssa.TypeAssert) Value {
	iv := ex.get(fr, i.X).(*IfaceVal)
	ok := false
	var res Value
	if iv.Typ != nil {
		if it, isIface := i.AssertedType.Underlying().(*types.Interface); isIface {
			ok = types.Implements(iv.Typ, it)
			if !ok {
				if _, isPtr := iv.Typ.(*types.Pointer); !isPtr {
					// value types: method set of T only
					ok = types.Implements(iv.Typ, it)
				}
			}
			res = iv
		} else {
			ok = types.Identical(iv.Typ, i.AssertedType)
			res = iv.Val
		}
	}
	if !ok {
		if !i.CommaOk {
			ex.end("PANIC", "type-assertion@"+ex.whereRepo())
		}
		return &Agg{E: []Value{ex.zero(i.AssertedType), tFalse}}
	}
	if i.CommaOk {
		return &Agg{E: []Value{res, tTrue}}
	}
	return res
}

// --- slices ---

func (ex *Exec) sliceOp(fr *frame, i *ssa.Slice) Value {
	x := ex.get(fr, i.X)
	var lo, hi, mx *Term
	if i.Low != nil {
		lo = ex.get(fr, i.Low).(*Term)
	}
	if i.High != nil {
		hi = ex.get(fr, i.High).(*Term)
	}
	if i.Max != nil {
		mx = ex.get(fr, i.Max).(*Term)
	}
	conc := func(t *Term, def, max int) int {
		if t == nil {
			return def
		}
		inb := mkCmp("bvule", mkResize(t, 64, true), mkConst(64, uint64(max)))
		if !ex.branch(inb) {
			ex.end("PANIC", "slice-bounds@"+ex.whereRepo())
		}
		k := ex.concretizeInt(t, 0, max)
		if k < 0 {
			ex.end("PRUNED", "slice bound concretization infeasible")
		}
		return k
	}
	switch a := x.(type) {
	case *SliceVal:
		if a.Blob != nil {
			if lo == nil && hi == nil {
				return a
			}
			ex.fatal("slicing an opaque blob")
		}
		h := conc(hi, a.Len, a.Cap)
		l := conc(lo, 0, h)
		m := conc(mx, a.Cap, a.Cap)
		if l > h || h > m {
			ex.end("PANIC", "slice-bounds@"+ex.whereRepo())
		}
		if a.Arr == nil {
			return &SliceVal{}
		}
		return &SliceVal{Arr: a.Arr, Off: a.Off + l, Len: h - l, Cap: m - l}
	case *Ptr: // pointer to array
		if a.C == nil {
			ex.end("PANIC", "nil-deref-slice@"+ex.whereRepo())
		}
		n := len(a.C.Kids)
		h := conc(hi, n, n)
		l := conc(lo, 0, h)
		m := conc(mx, n, n)
		return &SliceVal{Arr: a.C, Off: l, Len: h - l, Cap: m - l}
	case *StrVal:
		s := ex.concStr(a)
		h := conc(hi, len(s), len(s))
		l := conc(lo, 0, h)
		return &StrVal{S: s[l:h]}
	}
	ex.fatal("Slice on %T", x)
	return nil
}

func (ex *Exec) sliceElems(s *SliceVal) []Value {
	r := make([]Value, s.Len)
	for k := 0; k < s.Len; k++ {
		r[k] = ex.load(s.Arr.Kids[s.Off+k])
	}
	return r
}

func (ex *Exec) appendSlice(s *SliceVal, elem types.Type, vals []Value) *SliceVal {
	if len(vals) == 0 {
		return s
	}
	n := s.Len + len(vals)
	if s.Arr != nil && n <= s.Cap {
		for k, v := range vals {
			ex.store(s.Arr.Kids[s.Off+s.Len+k], v)
		}
		return &SliceVal{Arr: s.Arr, Off: s.Off, Len: n, Cap: s.Cap}
	}
	nc := 2 * s.Cap
	if nc < n {
		nc = n
	}
	arr := ex.newArrayCell(elem, nc)
	for k := 0; k < s.Len; k++ {
		ex.store(arr.Kids[k], ex.load(s.Arr.Kids[s.Off+k]))
	}
	for k, v := range vals {
		ex.store(arr.Kids[s.Len+k], v)
	}
	return &SliceVal{Arr: arr, Off: 0, Len: n, Cap: nc}
}

// --- maps ---

func (ex *Exec) keyEq(a, b Value) *Term { return ex.valueEq(a, b) }

func (ex *Exec) mapFind(m *MapObj, key Value) *mapCell {
	if m == nil {
		return nil
	}
	for _, c := range m.Cells {
		if !c.Live {
			continue
		}
		if ex.branch(ex.keyEq(c.Key, key)) {
			return c
		}
	}
	return nil
}

func (ex *Exec) mapSet(m *MapObj, key, val Value) {
	if c := ex.mapFind(m, key); c != nil {
		c.Val = val
		return
	}
	m.Cells = append(m.Cells, &mapCell{Key: key, Val: val, Live: true})
}

func (ex *Exec) mapLen(m *MapObj) int {
	if m == nil {
		return 0
	}
	n := 0
	for _, c := range m.Cells {
		if c.Live {
			n++
		}
	}
	return n
}

func (ex *Exec) lookup(fr *frame, i *ssa.Lookup) Value {
	x := ex.get(fr, i.X)
	switch m := x.(type) {
	case *MapObj:
		key := ex.get(fr, i.Index)
		c := ex.mapFind(m, key)
		var v Value
		if c != nil {
			v = c.Val
		} else {
			v = ex.zero(i.X.Type().Underlying().(*types.Map).Elem())
		}
		if i.CommaOk {
			return &Agg{E: []Value{v, mkBool(c != nil)}}
		}
		return v
	case *StrVal:
		s := ex.concStr(m)
		k := ex.boundedIndex(ex.get(fr, i.Index).(*Term), len(s))
		return mkConst(8, uint64(s[k]))
	}
	ex.fatal("Lookup on %T", x)
	return nil
}

type rangeIter struct {
	cells []*mapCell
	str   string
	isStr bool
	idx   int
}

func (ex *Exec) makeRange(x Value) Value {
	switch m := x.(type) {
	case *MapObj:
		it := &rangeIter{}
		if m != nil {
			it.cells = append(it.cells, m.Cells...)
			if ex.bounds["mapreverse"] == 1 {
				for l, r := 0, len(it.cells)-1; l < r; l, r = l+1, r-1 {
					it.cells[l], it.cells[r] = it.cells[r], it.cells[l]
				}
			}
		}
		return it
	case *StrVal:
		return &rangeIter{isStr: true, str: ex.concStr(m)}
	}
	ex.fatal("Range on %T", x)
	return nil
}

func (ex *Exec) next(it *rangeIter, i *ssa.Next) Value {
	tup := i.Type().(*types.Tuple)
	if it.isStr {
		if it.idx >= len(it.str) {
			return &Agg{E: []Value{tFalse, mkConst(64, 0), mkConst(32, 0)}}
		}
		// byte-wise is enough for ASCII; decode rune properly
		r, size := decodeRune(it.str[it.idx:])
		k := it.idx
		it.idx += size
		return &Agg{E: []Value{tTrue, mkConst(64, uint64(k)), mkConst(32, uint64(r))}}
	}
	for it.idx < len(it.cells) {
		c := it.cells[it.idx]
		it.idx++
		if c.Live {
			return &Agg{E: []Value{tTrue, c.Key, c.Val}}
		}
	}
	var kz, vz Value
	kz = ex.zeroOrInvalid(tup.At(1).Type())
	vz = ex.zeroOrInvalid(tup.At(2).Type())
	return &Agg{E: []Value{tFalse, kz, vz}}
}

func (ex *Exec) zeroOrInvalid(t types.Type) Value {
	if b, ok := t.(*types.Basic); ok && b.Kind() == types.Invalid {
		return nil
	}
	return ex.zero(t)
}

func decodeRune(s string) (rune, int) {
	for i, r := range s {
		_ = i
		n := len(string(r))
		if r == 0xFFFD {
			n = 1
		}
		return r, n
	}
	return 0, 0
}

// --- select ---

func (ex *Exec) selectOp(fr *frame, i *ssa.Select) Value {
	// result tuple: (index int, recvOk bool, r_0 T_0, ... r_n-1)
	var recvTypes []types.Type
	for _, st := range i.States {
		if st.Dir == types.RecvOnly {
			recvTypes = append(recvTypes, st.Chan.Type().Underlying().(*types.Chan).Elem())
		}
	}
	mk := func(idx int, ok bool, which int, v Value) Value {
		e := []Value{mkConst(64, uint64(int64(idx))), mkBool(ok)}
		for k, t := range recvTypes {
			if k == which {
				e = append(e, v)
			} else {
				e = append(e, ex.zero(t))
			}
		}
		return &Agg{E: e}
	}
	var ready []int
	for k, st := range i.States {
		ch := ex.get(fr, st.Chan)
		if to, ok := ch.(*timerChan); ok {
			_ = to
			ready = append(ready, k) // a timer channel may be ready
			continue
		}
		c := ch.(*ChanObj)
		if c == nil {
			continue
		}
		if st.Dir == types.SendOnly {
			if len(c.Buf) < c.Cap {
				ready = append(ready, k)
			}
		} else {
			if len(c.Buf) > 0 || c.Closed {
				ready = append(ready, k)
			}
		}
	}
	if len(ready) == 0 {
		if !i.Blocking {
			return mk(-1, false, -1, nil)
		}
		ex.end("BLOCKS", "select-blocks@"+ex.whereRepo())
	}
	pick := ready[0]
	if len(ready) > 1 {
		// fork over ready cases
		pick = ready[len(ready)-1]
		for _, k := range ready[:len(ready)-1] {
			v := ex.newVar("select.pick", 0)
			if ex.branch(v) {
				pick = k
				break
			}
		}
	}
	st := i.States[pick]
	ch := ex.get(fr, st.Chan)
	if _, ok := ch.(*timerChan); ok {
		which := 0
		for k := 0; k < pick; k++ {
			if i.States[k].Dir == types.RecvOnly {
				which++
			}
		}
		return mk(pick, true, which, ex.zero(recvTypes[which]))
	}
	c := ch.(*ChanObj)
	if st.Dir == types.SendOnly {
		c.Buf = append(c.Buf, ex.get(fr, st.Send))
		return mk(pick, false, -1, nil)
	}
	which := 0
	for k := 0; k < pick; k++ {
		if i.States[k].Dir == types.RecvOnly {
			which++
		}
	}
	if len(c.Buf) > 0 {
		v := c.Buf[0]
		c.Buf = c.Buf[1:]
		return mk(pick, true, which, v)
	}
	return mk(pick, false, which, ex.zero(recvTypes[which]))
}

// timerChan is the value returned by the time.After intercept.
type timerChan struct{}

// --- builtins ---

func (ex *Exec) builtin(fr *frame, name string, args []Value, c *ssa.CallCommon) Value {
	switch name {
	case "len":
		switch a := args[0].(type) {
		case *SliceVal:
			if a.Blob != nil {
				return a.Blob.Len
			}
			return mkConst(64, uint64(a.Len))
		case *StrVal:
			if a.Sym != nil {
				// only emptiness is meaningful for symbolic ids
				return mkIte(mkCmp("=", a.Sym, mkConst(16, uint64(ex.w.intern("")))), mkConst(64, 0), mkConst(64, 1))
			}
			return mkConst(64, uint64(len(a.S)))
		case *MapObj:
			return mkConst(64, uint64(ex.mapLen(a)))
		case *ChanObj:
			if a == nil {
				return mkConst(64, 0)
			}
			return mkConst(64, uint64(len(a.Buf)))
		case *Ptr:
			return mkConst(64, uint64(len(a.C.Kids)))
		}
	case "cap":
		switch a := args[0].(type) {
		case *SliceVal:
			return mkConst(64, uint64(a.Cap))
		case *ChanObj:
			if a == nil {
				return mkConst(64, 0)
			}
			return mkConst(64, uint64(a.Cap))
		}
	case "append":
		s := args[0].(*SliceVal)
		elem := c.Args[0].Type().Underlying().(*types.Slice).Elem()
		switch t := args[1].(type) {
		case *SliceVal:
			if t.Blob != nil || s.Blob != nil {
				ex.fatal("append with opaque blob")
			}
			return ex.appendSlice(s, elem, ex.sliceElems(t))
		case *StrVal:
			str := ex.concStr(t)
			vals := make([]Value, len(str))
			for k := range vals {
				vals[k] = mkConst(8, uint64(str[k]))
			}
			return ex.appendSlice(s, elem, vals)
		}
	case "copy":
		dst := args[0].(*SliceVal)
		var src []Value
		switch t := args[1].(type) {
		case *SliceVal:
			src = ex.sliceElems(t)
		case *StrVal:
			str := ex.concStr(t)
			for k := range str {
				src = append(src, mkConst(8, uint64(str[k])))
			}
		}
		n := len(src)
		if dst.Len < n {
			n = dst.Len
		}
		for k := 0; k < n; k++ {
			ex.store(dst.Arr.Kids[dst.Off+k], src[k])
		}
		return mkConst(64, uint64(n))
	case "delete":
		m := args[0].(*MapObj)
		if c := ex.mapFind(m, args[1]); c != nil {
			c.Live = false
		}
		return nil
	case "print", "println":
		return nil
	case "close":
		ch := args[0].(*ChanObj)
		if ch == nil || ch.Closed {
			ex.end("PANIC", "close-of-nil-or-closed-chan@"+ex.whereRepo())
		}
		ch.Closed = true
		return nil
	case "min", "max":
		r := args[0].(*Term)
		_, signed := typeSigned(c.Args[0].Type())
		for _, a := range args[1:] {
			b := a.(*Term)
			var lt *Term
			if signed {
				lt = mkCmp("bvslt", b, r)
			} else {
				lt = mkCmp("bvult", b, r)
			}
			if name == "max" {
				lt = mkNot(mkOr(lt, mkCmp("=", b, r)))
			}
			r = mkIte(lt, b, r)
		}
		return r
	case "recover":
		return &IfaceVal{}
	case "ssa:wrapnilchk":
		p := args[0].(*Ptr)
		if p.C == nil {
			ex.end("PANIC", "nil-receiver-wrapper@"+ex.whereRepo())
		}
		return p
	}
	ex.fatal("builtin %s on %T", name, args[0])
	return nil
}

// ---------------------------------------------------------------------------
// lock discipline access log (C20)

func (ex *Exec) noteAccess(c *Cell, write bool) {
	if !ex.trackLocks {
		return
	}
	ex.lockAccess(c, write)
}

func sortedKeys[M ~map[string]V, V any](m M) []string {
	ks := make([]string, 0, len(m))
	for k := range m {
		ks = append(ks, k)
	}
	sort.Strings(ks)
	return ks
}
