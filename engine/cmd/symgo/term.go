package main

import (
	"fmt"
	"strings"
)

// Term is an SMT term: a bit-vector of width W (1..64) or a Bool (W == 0).
// Terms are immutable. Constructors fold constants so that concrete execution
// never reaches the solver.
type Term struct {
	Op   string // "const", "var", or an SMT-LIB operator
	W    int    // 0 = Bool
	Args []*Term
	C    uint64 // value for "const" (masked to W bits; Bool: 0/1)
	Name string // for "var"
	P1   int    // extract hi / extension amount
	P2   int    // extract lo
	str  string // cached SMT text (may be a defined name)
	size int
}

func mask(w int) uint64 {
	if w >= 64 {
		return ^uint64(0)
	}
	return (uint64(1) << uint(w)) - 1
}

func mkConst(w int, v uint64) *Term {
	if w == 0 {
		if v != 0 {
			return tTrue
		}
		return tFalse
	}
	return &Term{Op: "const", W: w, C: v & mask(w), size: 1}
}

var tTrue = &Term{Op: "const", W: 0, C: 1, size: 1}
var tFalse = &Term{Op: "const", W: 0, C: 0, size: 1}

func mkBool(b bool) *Term {
	if b {
		return tTrue
	}
	return tFalse
}

func mkVar(name string, w int) *Term { return &Term{Op: "var", W: w, Name: name, size: 1} }

func (t *Term) IsConst() bool { return t.Op == "const" }
func (t *Term) IsTrue() bool  { return t.Op == "const" && t.W == 0 && t.C == 1 }
func (t *Term) IsFalse() bool { return t.Op == "const" && t.W == 0 && t.C == 0 }

func signExt(v uint64, w int) int64 {
	if w >= 64 {
		return int64(v)
	}
	if v&(uint64(1)<<uint(w-1)) != 0 {
		return int64(v | ^mask(w))
	}
	return int64(v)
}

func sameTerm(a, b *Term) bool {
	if a == b {
		return true
	}
	if a.Op != b.Op || a.W != b.W || len(a.Args) != len(b.Args) {
		return false
	}
	switch a.Op {
	case "const":
		return a.C == b.C
	case "var":
		return a.Name == b.Name
	}
	if a.P1 != b.P1 || a.P2 != b.P2 {
		return false
	}
	if a.size > 40 || b.size > 40 {
		return false
	}
	for i := range a.Args {
		if !sameTerm(a.Args[i], b.Args[i]) {
			return false
		}
	}
	return true
}

func mk(op string, w int, args ...*Term) *Term {
	s := 1
	for _, a := range args {
		s += a.size
	}
	return &Term{Op: op, W: w, Args: args, size: s}
}

// mkBin builds an arithmetic/bitwise bit-vector operation.
func mkBin(op string, a, b *Term) *Term {
	if a.W != b.W {
		panic(fmt.Sprintf("mkBin %s width mismatch %d vs %d", op, a.W, b.W))
	}
	w := a.W
	if a.IsConst() && b.IsConst() {
		x, y := a.C, b.C
		var r uint64
		ok := true
		switch op {
		case "bvadd":
			r = x + y
		case "bvsub":
			r = x - y
		case "bvmul":
			r = x * y
		case "bvand":
			r = x & y
		case "bvor":
			r = x | y
		case "bvxor":
			r = x ^ y
		case "bvudiv":
			if y == 0 {
				ok = false
			} else {
				r = x / y
			}
		case "bvurem":
			if y == 0 {
				ok = false
			} else {
				r = x % y
			}
		case "bvsdiv":
			if y == 0 {
				ok = false
			} else {
				sx, sy := signExt(x, w), signExt(y, w)
				if sy == -1 {
					r = uint64(-sx)
				} else {
					r = uint64(sx / sy)
				}
			}
		case "bvsrem":
			if y == 0 {
				ok = false
			} else {
				sx, sy := signExt(x, w), signExt(y, w)
				if sy == -1 {
					r = 0
				} else {
					r = uint64(sx % sy)
				}
			}
		case "bvshl":
			if y >= uint64(w) {
				r = 0
			} else {
				r = x << y
			}
		case "bvlshr":
			if y >= uint64(w) {
				r = 0
			} else {
				r = x >> y
			}
		case "bvashr":
			sx := signExt(x, w)
			if y >= uint64(w) {
				if sx < 0 {
					r = ^uint64(0)
				} else {
					r = 0
				}
			} else {
				r = uint64(sx >> y)
			}
		default:
			ok = false
		}
		if ok {
			return mkConst(w, r)
		}
	}
	// light identities
	switch op {
	case "bvadd":
		if a.IsConst() && a.C == 0 {
			return b
		}
		if b.IsConst() && b.C == 0 {
			return a
		}
		if a.IsConst() && !b.IsConst() {
			return mkBin("bvadd", b, a)
		}
		// (c1 - x) + c2 => (c1+c2) - x
		if b.IsConst() && a.Op == "bvsub" && a.Args[0].IsConst() {
			return mkBin("bvsub", mkConst(w, a.Args[0].C+b.C), a.Args[1])
		}
		// (x + c1) + c2 => x + (c1+c2)
		if b.IsConst() && a.Op == "bvadd" && a.Args[1].IsConst() {
			return mkBin("bvadd", a.Args[0], mkConst(w, a.Args[1].C+b.C))
		}
	case "bvsub":
		if b.IsConst() && b.C == 0 {
			return a
		}
		if sameTerm(a, b) {
			return mkConst(w, 0)
		}
		if b.IsConst() {
			return mkBin("bvadd", a, mkConst(w, -b.C))
		}
		// c1 - (c2 - x) => (c1-c2) + x ;  c1 - (x + c2) => (c1-c2) - x
		if a.IsConst() && b.Op == "bvsub" && b.Args[0].IsConst() {
			return mkBin("bvadd", b.Args[1], mkConst(w, a.C-b.Args[0].C))
		}
		if a.IsConst() && b.Op == "bvadd" && b.Args[1].IsConst() {
			return mkBin("bvsub", mkConst(w, a.C-b.Args[1].C), b.Args[0])
		}
		// a - (a - g) => g
		if b.Op == "bvsub" && sameTerm(a, b.Args[0]) {
			return b.Args[1]
		}
		// (x + c) - x => c
		if a.Op == "bvadd" && a.Args[1].IsConst() && sameTerm(a.Args[0], b) {
			return a.Args[1]
		}
		// (x + c1) - (x + c2) => c1 - c2
		if a.Op == "bvadd" && b.Op == "bvadd" && a.Args[1].IsConst() && b.Args[1].IsConst() && sameTerm(a.Args[0], b.Args[0]) {
			return mkConst(w, a.Args[1].C-b.Args[1].C)
		}
		// x - (x + c) => -c
		if b.Op == "bvadd" && b.Args[1].IsConst() && sameTerm(a, b.Args[0]) {
			return mkConst(w, -b.Args[1].C)
		}
	case "bvmul":
		if a.IsConst() && a.C == 1 {
			return b
		}
		if b.IsConst() && b.C == 1 {
			return a
		}
		if (a.IsConst() && a.C == 0) || (b.IsConst() && b.C == 0) {
			return mkConst(w, 0)
		}
	case "bvand":
		if (a.IsConst() && a.C == 0) || (b.IsConst() && b.C == 0) {
			return mkConst(w, 0)
		}
	case "bvor", "bvxor":
		if a.IsConst() && a.C == 0 {
			return b
		}
		if b.IsConst() && b.C == 0 {
			return a
		}
	}
	return mk(op, w, a, b)
}

// mkCmp builds a comparison yielding Bool. op: "=", "bvult", "bvule", "bvslt", "bvsle".
func mkCmp(op string, a, b *Term) *Term {
	if a.W != b.W {
		panic(fmt.Sprintf("mkCmp %s width mismatch %d vs %d", op, a.W, b.W))
	}
	if a.IsConst() && b.IsConst() {
		switch op {
		case "=":
			return mkBool(a.C == b.C)
		case "bvult":
			return mkBool(a.C < b.C)
		case "bvule":
			return mkBool(a.C <= b.C)
		case "bvslt":
			return mkBool(signExt(a.C, a.W) < signExt(b.C, a.W))
		case "bvsle":
			return mkBool(signExt(a.C, a.W) <= signExt(b.C, a.W))
		}
	}
	if sameTerm(a, b) {
		switch op {
		case "=", "bvule", "bvsle":
			return tTrue
		case "bvult", "bvslt":
			return tFalse
		}
	}
	if op == "=" && a.W == 0 {
		// Bool equality
		if a.IsConst() {
			if a.C == 1 {
				return b
			}
			return mkNot(b)
		}
		if b.IsConst() {
			if b.C == 1 {
				return a
			}
			return mkNot(a)
		}
	}
	if op == "=" && a.W > 0 {
		// (x + c1) = (x + c2)
		if a.Op == "bvadd" && a.Args[1].IsConst() && sameTerm(a.Args[0], b) {
			return mkBool(a.Args[1].C == 0)
		}
		if b.Op == "bvadd" && b.Args[1].IsConst() && sameTerm(b.Args[0], a) {
			return mkBool(b.Args[1].C == 0)
		}
		if a.Op == "bvadd" && b.Op == "bvadd" && a.Args[1].IsConst() && b.Args[1].IsConst() && sameTerm(a.Args[0], b.Args[0]) {
			return mkBool(a.Args[1].C == b.Args[1].C)
		}
	}
	if op == "bvult" && b.IsConst() && b.C == 0 {
		return tFalse
	}
	if op == "bvule" && a.IsConst() && a.C == 0 {
		return tTrue
	}
	return mk(op, 0, a, b)
}

func mkNot(a *Term) *Term {
	if a.IsConst() {
		return mkBool(a.C == 0)
	}
	if a.Op == "not" {
		return a.Args[0]
	}
	return mk("not", 0, a)
}

func mkAnd(a, b *Term) *Term {
	if a.IsFalse() || b.IsFalse() {
		return tFalse
	}
	if a.IsTrue() {
		return b
	}
	if b.IsTrue() {
		return a
	}
	return mk("and", 0, a, b)
}

func mkOr(a, b *Term) *Term {
	if a.IsTrue() || b.IsTrue() {
		return tTrue
	}
	if a.IsFalse() {
		return b
	}
	if b.IsFalse() {
		return a
	}
	return mk("or", 0, a, b)
}

func mkImplies(a, b *Term) *Term { return mkOr(mkNot(a), b) }

func mkIte(c, a, b *Term) *Term {
	if c.IsTrue() {
		return a
	}
	if c.IsFalse() {
		return b
	}
	if a.W != b.W {
		panic("mkIte width mismatch")
	}
	if sameTerm(a, b) {
		return a
	}
	if a.W == 0 {
		if a.IsTrue() && b.IsFalse() {
			return c
		}
		if a.IsFalse() && b.IsTrue() {
			return mkNot(c)
		}
	}
	return mk("ite", a.W, c, a, b)
}

// mkResize converts an integer term of width a.W to width w; signed selects sign extension.
func mkResize(a *Term, w int, signed bool) *Term {
	if a.W == w {
		return a
	}
	if a.IsConst() {
		if w > a.W && signed {
			return mkConst(w, uint64(signExt(a.C, a.W)))
		}
		return mkConst(w, a.C)
	}
	if w < a.W {
		t := mk("extract", w, a)
		t.P1, t.P2 = w-1, 0
		return t
	}
	op := "zero_extend"
	if signed {
		op = "sign_extend"
	}
	t := mk(op, w, a)
	t.P1 = w - a.W
	return t
}

func mkNeg(a *Term) *Term { return mkBin("bvsub", mkConst(a.W, 0), a) }
func mkBvNot(a *Term) *Term {
	if a.IsConst() {
		return mkConst(a.W, ^a.C)
	}
	return mk("bvnot", a.W, a)
}

func sortOf(w int) string {
	if w == 0 {
		return "Bool"
	}
	return fmt.Sprintf("(_ BitVec %d)", w)
}

func constText(w int, v uint64) string {
	if w == 0 {
		if v != 0 {
			return "true"
		}
		return "false"
	}
	if w%4 == 0 {
		return fmt.Sprintf("#x%0*x", w/4, v&mask(w))
	}
	return fmt.Sprintf("(_ bv%d %d)", v&mask(w), w)
}

// smtName quotes a variable name for SMT-LIB.
func smtName(n string) string { return "|" + strings.ReplaceAll(n, "|", "_") + "|" }

// vars collects the free variables of t into m.
func (t *Term) vars(m map[string]int) {
	if t.Op == "var" {
		m[t.Name] = t.W
		return
	}
	for _, a := range t.Args {
		a.vars(m)
	}
}

// eval evaluates t under a model (missing variables = 0).
func (t *Term) eval(model map[string]uint64) uint64 {
	switch t.Op {
	case "const":
		return t.C
	case "var":
		return model[t.Name] & maskB(t.W)
	}
	sub := make([]*Term, len(t.Args))
	for i, a := range t.Args {
		sub[i] = mkConst(a.W, a.eval(model))
	}
	var r *Term
	switch t.Op {
	case "not":
		r = mkNot(sub[0])
	case "and":
		r = mkAnd(sub[0], sub[1])
	case "or":
		r = mkOr(sub[0], sub[1])
	case "ite":
		r = mkIte(sub[0], sub[1], sub[2])
	case "=", "bvult", "bvule", "bvslt", "bvsle":
		r = mkCmp(t.Op, sub[0], sub[1])
	case "extract":
		r = mkResize(sub[0], t.W, false)
	case "zero_extend":
		r = mkResize(sub[0], t.W, false)
	case "sign_extend":
		r = mkResize(sub[0], t.W, true)
	case "bvnot":
		r = mkBvNot(sub[0])
	default:
		r = mkBin(t.Op, sub[0], sub[1])
	}
	if !r.IsConst() {
		return 0
	}
	return r.C
}

func maskB(w int) uint64 {
	if w == 0 {
		return 1
	}
	return mask(w)
}
