package main

import (
	"fmt"
	"go/types"

	"golang.org/x/tools/go/ssa"
)

// intrinsics are harness functions (package raft, names starting with v) implemented by the engine.
var intrinsics map[string]handler

func init() {
	intrinsics = map[string]handler{
		"vNondetU64":  func(ex *Exec, fn *ssa.Function, a []Value) Value { return ex.newVar(ex.argName(a[0]), 64) },
		"vNondetI64":  func(ex *Exec, fn *ssa.Function, a []Value) Value { return ex.newVar(ex.argName(a[0]), 64) },
		"vNondetInt":  func(ex *Exec, fn *ssa.Function, a []Value) Value { return ex.newVar(ex.argName(a[0]), 64) },
		"vNondetU32":  func(ex *Exec, fn *ssa.Function, a []Value) Value { return ex.newVar(ex.argName(a[0]), 32) },
		"vNondetByte": func(ex *Exec, fn *ssa.Function, a []Value) Value { return ex.newVar(ex.argName(a[0]), 8) },
		"vNondetBool": func(ex *Exec, fn *ssa.Function, a []Value) Value { return ex.newVar(ex.argName(a[0]), 0) },
		"vNondetStr":  inNondetStr,
		"vChoose":     inChoose,
		"vAssume": func(ex *Exec, fn *ssa.Function, a []Value) Value {
			ex.assume(a[0].(*Term))
			return nil
		},
		"vAssert": func(ex *Exec, fn *ssa.Function, a []Value) Value {
			ex.checkAssert(a[0].(*Term), ex.argName(a[1]))
			return nil
		},
		// vAssertEngine: a fact about the explored path that only the engine can observe (e.g. whether a
		// file was fsynced); natively a no-op, reported without native confirmation (kind ENGINE).
		"vAssertEngine": func(ex *Exec, fn *ssa.Function, a []Value) Value {
			c := a[0].(*Term)
			label := ex.argName(a[1])
			if ex.pos < len(ex.prefix) {
				return nil
			}
			st := ex.res.stat(label)
			st.Checked++
			if !c.IsConst() {
				ex.fatal("vAssertEngine needs a concrete condition")
			}
			if c.IsTrue() {
				st.Trivial++
				return nil
			}
			st.Failed++
			ex.flushAsserts()
			ex.recordFailure(label, "ENGINE", ex.argName(a[2]))
			return nil
		},
		"vFileDirty": func(ex *Exec, fn *ssa.Function, a []Value) Value {
			if ex.vfs == nil {
				return tFalse
			}
			return mkBool(ex.vfs.dirty[ex.argName(a[0])])
		},
		"vRenamedUnsynced": func(ex *Exec, fn *ssa.Function, a []Value) Value {
			return mkBool(ex.vfs != nil && ex.vfs.renamedDirty)
		},
		"vCover": func(ex *Exec, fn *ssa.Function, a []Value) Value {
			ex.covers[ex.argName(a[0])] = true
			return nil
		},
		"vCoverIf": inCoverIf,
		"vTag": func(ex *Exec, fn *ssa.Function, a []Value) Value {
			ex.tags[ex.argName(a[0])] = ex.argName(a[1])
			return nil
		},
		"vTagInt": func(ex *Exec, fn *ssa.Function, a []Value) Value {
			t := a[1].(*Term)
			if t.IsConst() {
				ex.tags[ex.argName(a[0])] = fmt.Sprint(signExt(t.C, t.W))
			} else {
				ex.tags[ex.argName(a[0])] = "sym"
			}
			return nil
		},
		"vTagBool": func(ex *Exec, fn *ssa.Function, a []Value) Value {
			t := a[1].(*Term)
			if t.IsConst() {
				ex.tags[ex.argName(a[0])] = fmt.Sprint(t.C == 1)
			} else {
				ex.tags[ex.argName(a[0])] = "sym"
			}
			return nil
		},
		"vAnd":     func(ex *Exec, fn *ssa.Function, a []Value) Value { return mkAnd(a[0].(*Term), a[1].(*Term)) },
		"vOr":      func(ex *Exec, fn *ssa.Function, a []Value) Value { return mkOr(a[0].(*Term), a[1].(*Term)) },
		"vNot":     func(ex *Exec, fn *ssa.Function, a []Value) Value { return mkNot(a[0].(*Term)) },
		"vImplies": func(ex *Exec, fn *ssa.Function, a []Value) Value { return mkImplies(a[0].(*Term), a[1].(*Term)) },
		"vIteU64": func(ex *Exec, fn *ssa.Function, a []Value) Value {
			return mkIte(a[0].(*Term), a[1].(*Term), a[2].(*Term))
		},
		"vBound": func(ex *Exec, fn *ssa.Function, a []Value) Value {
			n := ex.argName(a[0])
			v, ok := ex.bounds[n]
			if !ok {
				ex.fatal("vBound(%q): bound not configured", n)
			}
			return mkConst(64, uint64(v))
		},
		"vOnPanic": func(ex *Exec, fn *ssa.Function, a []Value) Value {
			ex.panicLbl = ex.argName(a[0])
			return nil
		},
		"vOnFatal": func(ex *Exec, fn *ssa.Function, a []Value) Value {
			ex.fatalLbl = ex.argName(a[0])
			return nil
		},
		"vSymbolic":     func(ex *Exec, fn *ssa.Function, a []Value) Value { return tTrue },
		"vInBackground": func(ex *Exec, fn *ssa.Function, a []Value) Value { return mkBool(ex.inBg) },
		"vDrain":        inDrain,
		"vSpawnCount": func(ex *Exec, fn *ssa.Function, a []Value) Value {
			return mkConst(64, uint64(len(ex.spawned)))
		},
		"vTimeAgo": func(ex *Exec, fn *ssa.Function, a []Value) Value {
			return timeVal(mkBin("bvsub", ex.now(), a[0].(*Term)))
		},
		"vAdvanceClock": func(ex *Exec, fn *ssa.Function, a []Value) Value {
			ex.lastNow = mkBin("bvadd", ex.now(), a[0].(*Term))
			return nil
		},
		"vConcretize": func(ex *Exec, fn *ssa.Function, a []Value) Value {
			n := ex.concretizeInt(a[1].(*Term), 0, 1<<20)
			k := ex.concretizeInt(a[0].(*Term), 0, n-1)
			if k < 0 {
				ex.end("PRUNED", "vConcretize: no value in range")
			}
			return mkConst(64, uint64(k))
		},
		"vUseVFS": func(ex *Exec, fn *ssa.Function, a []Value) Value {
			ex.vfs = newVFS()
			return nil
		},
		"vCrashEnable": func(ex *Exec, fn *ssa.Function, a []Value) Value {
			ex.vfs.crashOn = a[0].(*Term).IsTrue()
			return nil
		},
		"vRunUntilCrash": func(ex *Exec, fn *ssa.Function, a []Value) Value {
			f := a[0].(*FuncVal)
			depth := len(ex.stack)
			crashed := false
			func() {
				defer func() {
					if r := recover(); r != nil {
						if _, ok := r.(crashSignal); ok {
							crashed = true
							ex.stack = ex.stack[:depth]
							return
						}
						panic(r)
					}
				}()
				ex.callNamed(f.Fn, nil, f.Bind, nil)
			}()
			if ex.vfs != nil {
				ex.vfs.freeze()
				ex.vfs.crashOn = false
				// the process is gone: every open handle with it
				ex.vfs.handles = map[*Cell]*vhandle{}
				ex.vfs.streams = map[*Cell]*vstream{}
			}
			return mkBool(crashed)
		},
		"vSyncInt": func(ex *Exec, fn *ssa.Function, a []Value) Value {
			t := a[1].(*Term)
			if !t.IsConst() {
				ex.fatal("vSyncInt needs a concrete value")
			}
			ex.choices[ex.freshName(ex.argName(a[0]))] = t.C
			return t
		},
		"vMisparsed": func(ex *Exec, fn *ssa.Function, a []Value) Value {
			return mkBool(ex.vfs != nil && ex.vfs.misparsed)
		},
		"vFileOffsetIsBoundary": func(ex *Exec, fn *ssa.Function, a []Value) Value { return tTrue },
		"vEndPath": func(ex *Exec, fn *ssa.Function, a []Value) Value {
			ex.end("PASS", "vEndPath")
			return nil
		},
		"vHeld": func(ex *Exec, fn *ssa.Function, a []Value) Value {
			c := mutexStateCell(ex, a[0])
			return mkBool(c.V.(*Term).C != 0)
		},
		"vSignals": func(ex *Exec, fn *ssa.Function, a []Value) Value {
			p := a[0].(*Ptr)
			if p.C == nil {
				return mkConst(64, 0)
			}
			if v, ok := ex.ghost[fmt.Sprintf("signals:%d", p.C.id)]; ok {
				return v
			}
			return mkConst(64, 0)
		},
		"vTrackLocks": func(ex *Exec, fn *ssa.Function, a []Value) Value {
			ex.trackLocks = a[0].(*Term).IsTrue()
			return nil
		},
		"vDummyFile": func(ex *Exec, fn *ssa.Function, a []Value) Value {
			ft := fn.Signature.Results().At(0).Type().(*types.Pointer).Elem()
			return &Ptr{C: ex.newCell(ft)}
		},
		"vSetupNative": icNop,
		"vNote":        icNop,
	}
}

func (ex *Exec) argName(v Value) string {
	s, ok := v.(*StrVal)
	if !ok || s.Sym != nil {
		ex.fatal("intrinsic needs a concrete string argument")
	}
	return s.S
}

// vNondetStr(name string, universe ...string) string
func inNondetStr(ex *Exec, fn *ssa.Function, a []Value) Value {
	name := ex.argName(a[0])
	univ := ex.sliceElems(a[1].(*SliceVal))
	if len(univ) == 0 {
		ex.fatal("vNondetStr with empty universe")
	}
	v := ex.newVar(name, 16)
	ex.strVars[v.Name] = true
	var ids []int
	c := tFalse
	for _, u := range univ {
		id := ex.w.intern(ex.concStr(u.(*StrVal)))
		ids = append(ids, id)
		c = mkOr(c, mkCmp("=", v, mkConst(16, uint64(id))))
	}
	ex.assume(c)
	return &StrVal{Sym: v, Univ: ids}
}

// vChoose(name string, n int) int: a concrete value in [0, n) chosen by forking.
func inChoose(ex *Exec, fn *ssa.Function, a []Value) Value {
	name := ex.freshName(ex.argName(a[0]))
	n := ex.concretizeInt(a[1].(*Term), 0, 1<<20)
	if n <= 0 {
		ex.end("PRUNED", "vChoose with n <= 0")
	}
	// decision via an auxiliary symbolic variable so that the generic fork machinery applies
	ex.declared["choose."+name] = 64
	v := mkVar("choose."+name, 64)
	ex.solver.send(fmt.Sprintf("(declare-const %s %s)", smtName(v.Name), sortOf(64)))
	ex.assume(mkCmp("bvult", v, mkConst(64, uint64(n))))
	k := ex.concretizeInt(v, 0, n-1)
	if k < 0 {
		ex.end("PRUNED", "vChoose infeasible")
	}
	delete(ex.declared, "choose."+name)
	ex.choices[name] = uint64(k)
	return mkConst(64, uint64(k))
}

// vCoverIf(cond bool, label string): the label counts as covered if cond is satisfiable here.
func inCoverIf(ex *Exec, fn *ssa.Function, a []Value) Value {
	c := a[0].(*Term)
	label := ex.argName(a[1])
	if c.IsFalse() {
		return nil
	}
	if c.IsTrue() {
		ex.covers[label] = true
		return nil
	}
	if ex.pos >= len(ex.prefix) {
		ex.flushAsserts()
	}
	replay, code := ex.slot()
	if replay {
		if code == 7 {
			ex.covers[label] = true
		}
		return nil
	}
	if ex.checkWith(c) == "sat" {
		ex.setSlot(7)
		ex.covers[label] = true
	}
	return nil
}

// vDrain(): run every recorded `go` call to completion in background mode.
func inDrain(ex *Exec, fn *ssa.Function, a []Value) Value {
	for i := 0; i < len(ex.spawned); i++ {
		sp := ex.spawned[i]
		if sp.ran {
			continue
		}
		sp.ran = true
		old := ex.inBg
		ex.inBg = true
		ex.callNamed(sp.fn, sp.args, sp.bind, nil)
		ex.inBg = old
	}
	return nil
}
