package main

import (
	"fmt"
	"go/types"

	"golang.org/x/tools/go/ssa"
)

// VFS is the symbolic file-system model used by the storage harnesses (binding B2).
// When ex.vfs == nil the "null" binding B1 applies: every file operation succeeds and remembers nothing.
type VFS struct {
}

func (ex *Exec) makeBlobBuffer(ln *Term) Value {
	ex.blobSeq++
	return &SliceVal{Blob: &Blob{ID: ex.blobSeq, Len: ln, Kind: "buffer"}}
}

func (ex *Exec) vfsSprintf(fn *ssa.Function, a []Value) (Value, bool) { return nil, false }

func nilErr() Value { return &IfaceVal{} }

func (ex *Exec) newFileCell(fn *ssa.Function, resultIdx int) *Cell {
	res := fn.Signature.Results()
	ft := res.At(resultIdx).Type().(*types.Pointer).Elem()
	return ex.newCell(ft)
}

func plField(c *Cell, name string) *Cell {
	st := c.T.Underlying().(*types.Struct)
	for i := 0; i < st.NumFields(); i++ {
		if st.Field(i).Name() == name {
			return c.Kids[i]
		}
	}
	panic("persistentLog has no field " + name)
}

func registerIOIntercepts() {
	m := map[string]handler{
		"(*os.File).Seek": func(ex *Exec, fn *ssa.Function, a []Value) Value {
			v := ex.newVar("file.offset", 64)
			ex.assume(mkCmp("bvsle", mkConst(64, 0), v))
			return &Agg{E: []Value{v, nilErr()}}
		},
		"(*os.File).Sync":     func(ex *Exec, fn *ssa.Function, a []Value) Value { return nilErr() },
		"(*os.File).Close":    func(ex *Exec, fn *ssa.Function, a []Value) Value { return nilErr() },
		"(*os.File).Truncate": func(ex *Exec, fn *ssa.Function, a []Value) Value { return nilErr() },
		"(*os.File).Name":     func(ex *Exec, fn *ssa.Function, a []Value) Value { return &StrVal{S: "<file>"} },
		"(*os.File).Write": func(ex *Exec, fn *ssa.Function, a []Value) Value {
			s := a[1].(*SliceVal)
			var n *Term
			if s.Blob != nil {
				n = s.Blob.Len
			} else {
				n = mkConst(64, uint64(s.Len))
			}
			return &Agg{E: []Value{n, nilErr()}}
		},
		"os.CreateTemp": func(ex *Exec, fn *ssa.Function, a []Value) Value {
			return &Agg{E: []Value{&Ptr{C: ex.newFileCell(fn, 0)}, nilErr()}}
		},
		"os.OpenFile": func(ex *Exec, fn *ssa.Function, a []Value) Value {
			return &Agg{E: []Value{&Ptr{C: ex.newFileCell(fn, 0)}, nilErr()}}
		},
		"os.Rename":    func(ex *Exec, fn *ssa.Function, a []Value) Value { return nilErr() },
		"os.Remove":    func(ex *Exec, fn *ssa.Function, a []Value) Value { return nilErr() },
		"os.RemoveAll": func(ex *Exec, fn *ssa.Function, a []Value) Value { return nilErr() },
		"os.MkdirAll":  func(ex *Exec, fn *ssa.Function, a []Value) Value { return nilErr() },
		"google.golang.org/protobuf/proto.Marshal": func(ex *Exec, fn *ssa.Function, a []Value) Value {
			ex.blobSeq++
			ln := ex.newVar("marshal.len", 64)
			ex.assume(mkCmp("bvult", ln, mkConst(64, 1<<31)))
			return &Agg{E: []Value{&SliceVal{Blob: &Blob{ID: ex.blobSeq, Len: ln, Kind: "proto", Msg: a[0]}}, nilErr()}}
		},
		"encoding/binary.Write": func(ex *Exec, fn *ssa.Function, a []Value) Value { return nilErr() },
		// B1 binding: the in-memory entries of a persistentLog stand for its durable content
		// (justified by C12: memory is published only after Sync), so reopening is the identity.
		"(*github.com/jmsadair/raft.persistentLog).Open": func(ex *Exec, fn *ssa.Function, a []Value) Value {
			c := a[0].(*Ptr).C
			fc, ec := plField(c, "file"), plField(c, "entries")
			if p := fc.V.(*Ptr); p.C == nil {
				fc.V = &Ptr{C: ex.newCell(fc.T.(*types.Pointer).Elem())}
			}
			if d, ok := ex.ghost[fmt.Sprintf("durable-log:%d", c.id)]; ok {
				ec.V = d
			}
			return nilErr()
		},
		"(*github.com/jmsadair/raft.persistentLog).Close": func(ex *Exec, fn *ssa.Function, a []Value) Value {
			c := a[0].(*Ptr).C
			fc, ec := plField(c, "file"), plField(c, "entries")
			if p := fc.V.(*Ptr); p.C == nil {
				return nilErr()
			}
			// the durable content is what memory held when the file was closed
			src := ec.V.(*SliceVal)
			cp := ex.appendSlice(&SliceVal{}, ec.T.Underlying().(*types.Slice).Elem(), ex.sliceElems(src))
			ex.ghost[fmt.Sprintf("durable-log:%d", c.id)] = cp
			ec.V = &SliceVal{}
			fc.V = &Ptr{}
			return nilErr()
		},
		"(*github.com/jmsadair/raft.persistentLog).Replay": func(ex *Exec, fn *ssa.Function, a []Value) Value { return nilErr() },
	}
	for k, v := range m {
		intercepts[k] = v
	}
	registerIOModels()
}

func (ex *Exec) vfsReadFull(a []Value) (Value, bool) { return nil, false }

// lockAccess records an access for the C20 lock-discipline check.
func (ex *Exec) lockAccess(c *Cell, write bool) {}
