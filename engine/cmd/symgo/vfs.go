package main

import (
	"fmt"
	"go/types"
	"path/filepath"
	"regexp"
	"sort"
	"strings"

	"golang.org/x/tools/go/ssa"
)

// VFS is the symbolic file-system model used by the storage harnesses (binding B2, DESIGN.md §2.5).
// When ex.vfs == nil the "null" binding B1 applies: every file operation succeeds and remembers nothing.
//
// A regular file is a sequence of chunks: hdr (a 4-byte big-endian int32 written by binary.Write),
// blob (an opaque codec output of symbolic length, possibly only partially present after a crash) or
// raw (a concrete number of symbolic bytes). Every write is durable at once (no page-cache loss is
// modelled). A crash is a fork before any mutating operation, or inside a write (a byte prefix).
type vchunk struct {
	kind   int // 0 hdr, 1 blob, 2 raw
	val    *Term
	hbytes int
	blob   *Blob
	avail  *Term
	full   bool
	raw    []Value
}

type vfile struct {
	chunks []*vchunk
	id     int
}

type vnode struct {
	dir  bool
	file *vfile
}

type vhandle struct {
	path   string
	f      *vfile
	pos    int
	closed bool
	hole   *Term // bytes between the end of the file and the position (left by a truncate below the position)
}

type vstream struct {
	chunks []*vchunk
	pos    int
}

type VFS struct {
	nodes     map[string]*vnode
	handles   map[*Cell]*vhandle
	streams   map[*Cell]*vstream
	tmpSeq    int
	snapSeq   int
	ops       int
	crashOn   bool
	fileSeq   int
	opLog     []string
	regexps   map[*Cell]string
	misparsed bool
	// fsync bookkeeping (not part of the crash model: every write is durable at once; this only
	// records whether the code asked for durability before it relied on it)
	dirty        map[string]bool
	renamedDirty bool
	// the file system as it was when the crashing run ended (what a native replay must start from)
	crashNodes map[string]*vnode
	crashOps   []string
}

// freeze records the current file system as the post-crash image.
func (v *VFS) freeze() {
	v.crashNodes = map[string]*vnode{}
	for p, n := range v.nodes {
		c := &vnode{dir: n.dir}
		if n.file != nil {
			c.file = &vfile{id: n.file.id, chunks: append([]*vchunk{}, n.file.chunks...)}
		}
		v.crashNodes[p] = c
	}
	v.crashOps = append([]string{}, v.opLog...)
}

func newVFS() *VFS {
	return &VFS{nodes: map[string]*vnode{"/": {dir: true}}, handles: map[*Cell]*vhandle{}, streams: map[*Cell]*vstream{}, regexps: map[*Cell]string{}, dirty: map[string]bool{}}
}

type crashSignal struct{}

func (ex *Exec) makeBlobBuffer(ln *Term) Value {
	ex.blobSeq++
	return &SliceVal{Blob: &Blob{ID: ex.blobSeq, Len: ln, Kind: "buffer"}}
}

func nilErr() Value { return &IfaceVal{} }

func (ex *Exec) newFileCell(fn *ssa.Function, resultIdx int) *Cell {
	res := fn.Signature.Results()
	ft := res.At(resultIdx).Type().(*types.Pointer).Elem()
	return ex.newCell(ft)
}

func plField(c *Cell, name string) *Cell {
	st := c.T.Underlying().(*types.Struct)
	for i := 0; i < st.NumFields(); i++ {
		if st.Field(i).Name() == name {
			return c.Kids[i]
		}
	}
	panic("struct has no field " + name)
}

func (v *VFS) logOp(s string) {
	if len(v.opLog) < 64 {
		v.opLog = append(v.opLog, s)
	}
}

// crashPoint forks: the process may die right before the mutating operation `name`.
func (ex *Exec) crashPoint(name string) {
	v := ex.vfs
	v.ops++
	if !v.crashOn {
		return
	}
	c := ex.newVar(fmt.Sprintf("crash.before.op%d", v.ops), 0)
	if ex.branch(c) {
		ex.choices["crash.op"] = uint64(v.ops)
		ex.tags["crash"] = "before:" + strings.Fields(name)[0]
		v.logOp("CRASH before " + name)
		panic(crashSignal{})
	}
}

func (v *VFS) exists(p string) bool { _, ok := v.nodes[p]; return ok }

func (v *VFS) children(dir string) []string {
	var names []string
	prefix := dir + "/"
	for p := range v.nodes {
		if strings.HasPrefix(p, prefix) && !strings.Contains(p[len(prefix):], "/") {
			names = append(names, p[len(prefix):])
		}
	}
	sort.Strings(names)
	return names
}

func (v *VFS) removeAll(p string) {
	delete(v.nodes, p)
	prefix := p + "/"
	for q := range v.nodes {
		if strings.HasPrefix(q, prefix) {
			delete(v.nodes, q)
		}
	}
}

func (ex *Exec) pathErr(kind string) Value {
	switch kind {
	case "notexist":
		return ex.ioSentinel("io/fs", "ErrNotExist")
	case "exist":
		return ex.ioSentinel("io/fs", "ErrExist")
	case "closed":
		return ex.ioSentinel("io/fs", "ErrClosed")
	}
	return ex.newError("vfs:"+kind, nil)
}

func (ex *Exec) handleOf(v Value) *vhandle {
	p := v.(*Ptr)
	if p.C == nil {
		ex.end("PANIC", "nil-file@"+ex.whereRepo())
	}
	h := ex.vfs.handles[p.C]
	if h == nil {
		ex.fatal("file handle not opened through the vfs")
	}
	return h
}

func chunkSize(c *vchunk) *Term {
	switch c.kind {
	case 0:
		return mkConst(64, uint64(c.hbytes))
	case 1, 3:
		return c.avail
	default:
		return mkConst(64, uint64(len(c.raw)))
	}
}

func offsetOfChunks(chunks []*vchunk, pos int) *Term {
	t := mkConst(64, 0)
	for i := 0; i < pos; i++ {
		t = mkBin("bvadd", t, chunkSize(chunks[i]))
	}
	return t
}

func offsetOf(f *vfile, pos int) *Term { return offsetOfChunks(f.chunks, pos) }

// boundaryFor finds the chunk boundary whose offset equals off (forking over the candidates).
func (ex *Exec) boundaryFor(f *vfile, off *Term) int {
	for k := 0; k <= len(f.chunks); k++ {
		if ex.branch(mkCmp("=", off, offsetOf(f, k))) {
			return k
		}
	}
	return -1
}

func (ex *Exec) openFile(fn *ssa.Function, path string, create, trunc bool) Value {
	v := ex.vfs
	n := v.nodes[path]
	if n == nil {
		if !create || !v.exists(filepath.Dir(path)) {
			return &Agg{E: []Value{&Ptr{}, ex.pathErr("notexist")}}
		}
		ex.crashPoint("create " + path)
		v.fileSeq++
		n = &vnode{file: &vfile{id: v.fileSeq}}
		v.nodes[path] = n
		v.logOp("create " + path)
	} else if n.dir {
		return &Agg{E: []Value{&Ptr{}, ex.newError("vfs:is-a-directory", nil)}}
	} else if trunc && len(n.file.chunks) > 0 {
		ex.crashPoint("truncate-on-open " + path)
		n.file.chunks = nil
	}
	c := ex.newFileCell(fn, 0)
	v.handles[c] = &vhandle{path: path, f: n.file}
	return &Agg{E: []Value{&Ptr{C: c}, nilErr()}}
}

func (ex *Exec) appendChunk(h *vhandle, c *vchunk) {
	ex.vfs.dirty[h.path] = true
	if h.hole != nil && h.pos == len(h.f.chunks) {
		// writing beyond the end of the file: the gap reads back as bytes that belong to no record
		h.f.chunks = append(h.f.chunks, &vchunk{kind: 3, avail: h.hole})
		h.pos++
		h.hole = nil
		ex.tags["hole"] = "write-beyond-end-of-file-after-truncate"
	}
	if h.pos == len(h.f.chunks) {
		h.f.chunks = append(h.f.chunks, c)
		h.pos++
		return
	}
	// overwrite in place: the new bytes replace what follows the position; whatever of the old content
	// extends beyond them stays in the file as bytes that belong to no record (kind 3)
	old := mkConst(64, 0)
	for _, oc := range h.f.chunks[h.pos:] {
		old = mkBin("bvadd", old, chunkSize(oc))
	}
	nsz := chunkSize(c)
	keep := append([]*vchunk{}, h.f.chunks[:h.pos]...)
	keep = append(keep, c)
	if !ex.branch(mkCmp("bvule", old, nsz)) {
		keep = append(keep, &vchunk{kind: 3, avail: mkBin("bvsub", old, nsz)})
		ex.tags["overwrite"] = "old-bytes-left-behind-new-record"
	}
	h.f.chunks = keep
	h.pos++
}

// writeSlice models w.Write(p) on a vfs file, including a crash that leaves a byte prefix.
func (ex *Exec) writeSlice(h *vhandle, s *SliceVal) Value {
	v := ex.vfs
	if h.closed {
		return &Agg{E: []Value{mkConst(64, 0), ex.pathErr("closed")}}
	}
	if s.Blob != nil {
		b := s.Blob
		if b.Len.IsConst() && b.Len.C == 0 {
			return &Agg{E: []Value{mkConst(64, 0), nilErr()}}
		}
		ex.crashPoint("write " + h.path)
		if v.crashOn {
			c := ex.newVar(fmt.Sprintf("crash.inside.op%d", v.ops), 0)
			if ex.branch(c) {
				m := ex.newVar(fmt.Sprintf("crash.cut.op%d", v.ops), 64)
				ex.assume(mkAnd(mkCmp("bvult", mkConst(64, 0), m), mkCmp("bvult", m, b.Len)))
				ex.ensureFeasible()
				ex.appendChunk(h, &vchunk{kind: 1, blob: b, avail: m})
				ex.choices["crash.op"] = uint64(v.ops)
				ex.tags["crash"] = "inside-payload-write"
				v.logOp("CRASH inside payload write " + h.path)
				panic(crashSignal{})
			}
		}
		ex.appendChunk(h, &vchunk{kind: 1, blob: b, avail: b.Len, full: true})
		v.logOp("write blob " + h.path)
		return &Agg{E: []Value{b.Len, nilErr()}}
	}
	if s.Len == 0 {
		return &Agg{E: []Value{mkConst(64, 0), nilErr()}}
	}
	ex.crashPoint("write " + h.path)
	raw := ex.sliceElems(s)
	if v.crashOn && len(raw) > 1 {
		c := ex.newVar(fmt.Sprintf("crash.inside.op%d", v.ops), 0)
		if ex.branch(c) {
			k := 1
			for ; k < len(raw)-1; k++ {
				if ex.branch(ex.newVar(fmt.Sprintf("crash.rawcut%d.op%d", k, v.ops), 0)) {
					break
				}
			}
			ex.appendChunk(h, &vchunk{kind: 2, raw: raw[:k]})
			ex.choices["crash.op"] = uint64(v.ops)
			ex.choices["crash.rawbytes"] = uint64(k)
			ex.tags["crash"] = "inside-raw-write"
			panic(crashSignal{})
		}
	}
	ex.appendChunk(h, &vchunk{kind: 2, raw: raw})
	v.logOp("write raw " + h.path)
	return &Agg{E: []Value{mkConst(64, uint64(len(raw))), nilErr()}}
}

// sourceOf resolves a reader value to a chunk stream (file handle, bytes.Reader over file content).
func (ex *Exec) sourceOf(r Value) (chunks *[]*vchunk, pos *int, ok bool) {
	if ex.vfs == nil {
		return nil, nil, false
	}
	if iv, isI := r.(*IfaceVal); isI {
		if iv.Typ == nil {
			return nil, nil, false
		}
		r = iv.Val
	}
	p, isP := r.(*Ptr)
	if !isP || p.C == nil {
		return nil, nil, false
	}
	if h := ex.vfs.handles[p.C]; h != nil {
		return &h.f.chunks, &h.pos, true
	}
	if s := ex.vfs.streams[p.C]; s != nil {
		return &s.chunks, &s.pos, true
	}
	// a struct embedding a reader interface as its first field (snapshotFile embeds io.ReadWriteSeeker)
	if st, isS := p.C.T.Underlying().(*types.Struct); isS && st.NumFields() > 0 && st.Field(0).Embedded() {
		if inner, isIface := p.C.Kids[0].V.(*IfaceVal); isIface {
			return ex.sourceOf(inner)
		}
	}
	return nil, nil, false
}

// readHeader models binary.Read(r, order, &int32) on a chunk stream.
func (ex *Exec) readHeader(chunks []*vchunk, pos *int) (*Term, Value) {
	if *pos >= len(chunks) {
		return nil, ex.ioSentinel("io", "EOF")
	}
	c := chunks[*pos]
	if c.kind == 0 {
		if c.hbytes == 4 {
			*pos++
			return c.val, nilErr()
		}
		if *pos == len(chunks)-1 {
			*pos++
			return nil, ex.ioSentinel("io", "ErrUnexpectedEOF")
		}
	}
	if c.kind == 3 {
		// bytes of an old record left behind a shorter new one are read as a length header: any int32.
		// Negative: the reader's make([]byte, size) panics; zero: an empty phantom record; positive: a
		// record that ends beyond the end of the file (indistinguishable from a torn append).
		ex.vfs.misparsed = true
		ex.tags["misparse"] = "leftover-bytes-read-as-length-header"
		*pos = len(chunks)
		return ex.newVar("leftover.header", 32), nilErr()
	}
	// four bytes are taken from something that is not a length header: the framing is lost
	ex.vfs.misparsed = true
	ex.tags["misparse"] = "header-read-from-payload"
	*pos = len(chunks)
	return nil, ex.newError("vfs:misaligned-header-read", nil)
}

// readFullBlob models io.ReadFull(r, buf) where buf has symbolic length n.
func (ex *Exec) readFullBlob(chunks []*vchunk, pos *int, buf *Blob) Value {
	n := buf.Len
	if ex.branch(mkCmp("=", n, mkConst(64, 0))) {
		return &Agg{E: []Value{mkConst(64, 0), nilErr()}}
	}
	if *pos >= len(chunks) {
		return &Agg{E: []Value{mkConst(64, 0), ex.ioSentinel("io", "EOF")}}
	}
	c := chunks[*pos]
	last := *pos == len(chunks)-1
	if c.kind == 1 {
		if ex.branch(mkCmp("=", n, c.avail)) {
			*pos++
			if c.full {
				buf.Kind, buf.Msg = c.blob.Kind, c.blob.Msg
			} else {
				buf.Kind = "partial"
			}
			return &Agg{E: []Value{n, nilErr()}}
		}
		if last && ex.branch(mkCmp("bvult", c.avail, n)) {
			*pos++
			return &Agg{E: []Value{c.avail, ex.ioSentinel("io", "ErrUnexpectedEOF")}}
		}
	}
	ex.vfs.misparsed = true
	ex.tags["misparse"] = "payload-read-across-records"
	*pos = len(chunks)
	buf.Kind = "garbage"
	return &Agg{E: []Value{n, nilErr()}}
}

// readOnceBlob models one (*os.File).Read(buf) on a regular file where buf has symbolic length n: the call
// returns min(n, bytes left) bytes and a nil error (io.EOF only when nothing is left). Unlike io.ReadFull a
// short read is not an error: the rest of buf keeps its zero bytes, so what the caller holds is a record
// prefix followed by padding - bytes that are not one complete codec output ("garbage").
func (ex *Exec) readOnceBlob(chunks []*vchunk, pos *int, buf *Blob, n *Term, eofFirst bool) Value {
	// zero-length records leave nothing to read
	for *pos < len(chunks) && chunks[*pos].kind == 1 && chunks[*pos].avail.IsConst() && chunks[*pos].avail.C == 0 {
		*pos++
	}
	// (*bytes.Reader).Read reports io.EOF at the end of its input even for an empty buffer; (*os.File).Read
	// returns (0, nil) for an empty buffer wherever the position is
	if eofFirst && *pos >= len(chunks) {
		return &Agg{E: []Value{mkConst(64, 0), ex.ioSentinel("io", "EOF")}}
	}
	if ex.branch(mkCmp("=", n, mkConst(64, 0))) {
		return &Agg{E: []Value{mkConst(64, 0), nilErr()}}
	}
	if *pos >= len(chunks) {
		return &Agg{E: []Value{mkConst(64, 0), ex.ioSentinel("io", "EOF")}}
	}
	if buf == nil {
		ex.fatal("vfs: single Read into a concrete non-empty buffer from a record stream")
	}
	c := chunks[*pos]
	last := *pos == len(chunks)-1
	if c.kind == 1 {
		if ex.branch(mkCmp("=", n, c.avail)) {
			*pos++
			if c.full {
				buf.Kind, buf.Msg = c.blob.Kind, c.blob.Msg
			} else {
				buf.Kind = "partial"
			}
			return &Agg{E: []Value{n, nilErr()}}
		}
		if last && ex.branch(mkCmp("bvult", c.avail, n)) {
			*pos++
			if ex.branch(mkCmp("=", c.avail, mkConst(64, 0))) {
				return &Agg{E: []Value{mkConst(64, 0), ex.ioSentinel("io", "EOF")}}
			}
			buf.Kind = "garbage"
			ex.tags["short-read"] = "record-prefix-zero-padded"
			return &Agg{E: []Value{c.avail, nilErr()}}
		}
	}
	ex.vfs.misparsed = true
	ex.tags["misparse"] = "payload-read-across-records"
	*pos = len(chunks)
	buf.Kind = "garbage"
	return &Agg{E: []Value{n, nilErr()}}
}

// readOnce dispatches a single Read(buf) on a vfs-backed reader.
func (ex *Exec) readOnce(chunks []*vchunk, pos *int, p *SliceVal, eofFirst bool) Value {
	if p.Blob != nil {
		return ex.readOnceBlob(chunks, pos, p.Blob, p.Blob.Len, eofFirst)
	}
	return ex.readOnceBlob(chunks, pos, nil, mkConst(64, uint64(p.Len)), eofFirst)
}

func (ex *Exec) vfsReadFull(a []Value) (Value, bool) {
	chunks, pos, ok := ex.sourceOf(a[0])
	if !ok {
		return nil, false
	}
	buf := a[1].(*SliceVal)
	if buf.Blob != nil {
		return ex.readFullBlob(*chunks, pos, buf.Blob), true
	}
	return nil, false
}

func (ex *Exec) vfsSprintf(fn *ssa.Function, a []Value) (Value, bool) {
	if ex.vfs == nil {
		return nil, false
	}
	format, ok := a[0].(*StrVal)
	if !ok || format.Sym != nil {
		return nil, false
	}
	if format.S == "snapshot-%v" {
		// buildDirectoryBase: names grow with the (monotone) clock and have equal digit counts
		ex.vfs.snapSeq++
		return &StrVal{S: fmt.Sprintf("snapshot-%d", 1700000000000000000+ex.vfs.snapSeq*1000)}, true
	}
	return nil, false
}

func (ex *Exec) harnessObj(typeName string, fields ...Value) Value {
	t := ex.w.raftPkg.Type(typeName)
	if t == nil {
		ex.fatal("harness type %s missing", typeName)
	}
	c := ex.newCell(t.Type())
	for i, f := range fields {
		c.Kids[i].V = f
	}
	return &IfaceVal{Typ: types.NewPointer(t.Type()), Val: &Ptr{C: c}}
}

func (ex *Exec) callFuncVal(f *FuncVal, args ...Value) Value {
	return ex.callNamed(f.Fn, args, f.Bind, nil)
}

func isSkipDir(ex *Exec, v Value) bool {
	if isNilErr(v) {
		return false
	}
	return ex.valueEq(v, ex.ioSentinel("io/fs", "SkipDir")).IsTrue()
}

// walk is filepath.walk (Go 1.23): the names of a directory are read before the callback runs on it.
func (ex *Exec) walk(path string, fnv *FuncVal) Value {
	v := ex.vfs
	n := v.nodes[path]
	info := ex.harnessObj("vFileInfo", &StrVal{S: filepath.Base(path)}, mkBool(n.dir))
	if !n.dir {
		return ex.callFuncVal(fnv, &StrVal{S: path}, info, nilErr())
	}
	names := v.children(path)
	err1 := ex.callFuncVal(fnv, &StrVal{S: path}, info, nilErr())
	if !isNilErr(err1) {
		return err1
	}
	for _, name := range names {
		child := path + "/" + name
		cn := v.nodes[child]
		if cn == nil {
			// lstat fails: the callback gets the error
			e := ex.callFuncVal(fnv, &StrVal{S: child}, &IfaceVal{}, ex.pathErr("notexist"))
			if !isNilErr(e) && !isSkipDir(ex, e) {
				return e
			}
			continue
		}
		e := ex.walk(child, fnv)
		if !isNilErr(e) {
			if !cn.dir || !isSkipDir(ex, e) {
				return e
			}
		}
	}
	return nilErr()
}

func registerIOIntercepts() {
	m := map[string]handler{
		"(*os.File).Seek": func(ex *Exec, fn *ssa.Function, a []Value) Value {
			if ex.vfs == nil {
				v := ex.newVar("file.offset", 64)
				ex.assume(mkCmp("bvsle", mkConst(64, 0), v))
				return &Agg{E: []Value{v, nilErr()}}
			}
			h := ex.handleOf(a[0])
			if h.closed {
				return &Agg{E: []Value{mkConst(64, 0), ex.pathErr("closed")}}
			}
			off := a[1].(*Term)
			wh := ex.concretizeInt(a[2].(*Term), 0, 2)
			switch wh {
			case 0:
				k := ex.boundaryFor(h.f, off)
				if k < 0 {
					if !ex.vfs.misparsed {
						ex.fatal("vfs: seek to an offset that is not a record boundary")
					}
					// the framing of this file is already reported as destroyed: position at the end
					k = len(h.f.chunks)
				}
				h.pos = k
				h.hole = nil
			case 1:
				if !(off.IsConst() && off.C == 0) {
					ex.fatal("vfs: relative seek with non-zero offset")
				}
			case 2:
				if !(off.IsConst() && off.C == 0) {
					ex.fatal("vfs: seek from end with non-zero offset")
				}
				h.pos = len(h.f.chunks)
				h.hole = nil
			}
			at := offsetOf(h.f, h.pos)
			if h.hole != nil {
				at = mkBin("bvadd", at, h.hole)
			}
			return &Agg{E: []Value{at, nilErr()}}
		},
		"(*os.File).Sync": func(ex *Exec, fn *ssa.Function, a []Value) Value {
			if ex.vfs != nil {
				h := ex.handleOf(a[0])
				if h.closed {
					return ex.pathErr("closed")
				}
				ex.vfs.logOp("sync " + h.path)
				ex.vfsEvent("sync", h.path)
				ex.vfs.dirty[h.path] = false
			}
			return nilErr()
		},
		"(*os.File).Close": func(ex *Exec, fn *ssa.Function, a []Value) Value {
			if ex.vfs != nil {
				h := ex.handleOf(a[0])
				if h.closed {
					return ex.pathErr("closed")
				}
				h.closed = true
			}
			return nilErr()
		},
		"(*os.File).Truncate": func(ex *Exec, fn *ssa.Function, a []Value) Value {
			if ex.vfs == nil {
				return nilErr()
			}
			h := ex.handleOf(a[0])
			if h.closed {
				return ex.pathErr("closed")
			}
			k := ex.boundaryFor(h.f, a[1].(*Term))
			if k < 0 {
				// cutting inside a record: the framing of the file is destroyed
				ex.vfs.misparsed = true
				ex.tags["misparse"] = "truncate-inside-record"
				k = 0
			}
			if k < len(h.f.chunks) {
				ex.crashPoint("truncate " + h.path)
				if h.pos > k {
					// truncating does not move the position: it now lies beyond the end of the file, and a
					// write there leaves a hole of zero bytes in between
					gap := mkBin("bvsub", offsetOf(h.f, h.pos), offsetOf(h.f, k))
					if h.hole != nil {
						gap = mkBin("bvadd", gap, h.hole)
					}
					h.hole = gap
					h.pos = k
				}
				for _, oh := range ex.vfs.handles {
					if oh != h && oh.f == h.f && oh.pos > k {
						oh.pos = k
					}
				}
				h.f.chunks = h.f.chunks[:k]
				ex.vfs.logOp("truncate " + h.path)
				ex.vfs.dirty[h.path] = true
			}
			return nilErr()
		},
		"(*os.File).Name": func(ex *Exec, fn *ssa.Function, a []Value) Value {
			if ex.vfs == nil {
				return &StrVal{S: "<file>"}
			}
			return &StrVal{S: ex.handleOf(a[0]).path}
		},
		"(*os.File).Write": func(ex *Exec, fn *ssa.Function, a []Value) Value {
			s := a[1].(*SliceVal)
			if ex.vfs == nil {
				var n *Term
				if s.Blob != nil {
					n = s.Blob.Len
				} else {
					n = mkConst(64, uint64(s.Len))
				}
				return &Agg{E: []Value{n, nilErr()}}
			}
			return ex.writeSlice(ex.handleOf(a[0]), s)
		},
		"(*os.File).Read": func(ex *Exec, fn *ssa.Function, a []Value) Value {
			if ex.vfs == nil {
				ex.fatal("file read without vfs")
			}
			h := ex.handleOf(a[0])
			p := a[1].(*SliceVal)
			if h.closed {
				return &Agg{E: []Value{mkConst(64, 0), ex.pathErr("closed")}}
			}
			if p.Blob != nil {
				return ex.readOnce(h.f.chunks, &h.pos, p, false)
			}
			if h.pos >= len(h.f.chunks) {
				return &Agg{E: []Value{mkConst(64, 0), ex.ioSentinel("io", "EOF")}}
			}
			c := h.f.chunks[h.pos]
			if c.kind != 2 || p.Blob != nil || p.Len < len(c.raw) {
				ex.fatal("vfs: byte-wise read of a non-raw chunk")
			}
			for i, b := range c.raw {
				ex.store(p.Arr.Kids[p.Off+i], b)
			}
			h.pos++
			return &Agg{E: []Value{mkConst(64, uint64(len(c.raw))), nilErr()}}
		},
		"os.CreateTemp": func(ex *Exec, fn *ssa.Function, a []Value) Value {
			if ex.vfs == nil {
				return &Agg{E: []Value{&Ptr{C: ex.newFileCell(fn, 0)}, nilErr()}}
			}
			ex.vfs.tmpSeq++
			name := fmt.Sprintf("%s/%s%d", ex.concStr(a[0].(*StrVal)), ex.concStr(a[1].(*StrVal)), 1000+ex.vfs.tmpSeq)
			return ex.openFile(fn, name, true, false)
		},
		"os.MkdirTemp": func(ex *Exec, fn *ssa.Function, a []Value) Value {
			if ex.vfs == nil {
				return &Agg{E: []Value{&StrVal{S: "<tmpdir>"}, nilErr()}}
			}
			ex.vfs.tmpSeq++
			name := fmt.Sprintf("%s/%s%d", ex.concStr(a[0].(*StrVal)), ex.concStr(a[1].(*StrVal)), 1000+ex.vfs.tmpSeq)
			ex.crashPoint("mkdir " + name)
			ex.vfs.nodes[name] = &vnode{dir: true}
			ex.vfs.logOp("mkdir " + name)
			return &Agg{E: []Value{&StrVal{S: name}, nilErr()}}
		},
		"os.OpenFile": func(ex *Exec, fn *ssa.Function, a []Value) Value {
			if ex.vfs == nil {
				return &Agg{E: []Value{&Ptr{C: ex.newFileCell(fn, 0)}, nilErr()}}
			}
			flag := a[1].(*Term)
			if !flag.IsConst() {
				ex.fatal("symbolic open flags")
			}
			return ex.openFile(fn, ex.concStr(a[0].(*StrVal)), flag.C&0x40 != 0, flag.C&0x200 != 0)
		},
		"os.Create": func(ex *Exec, fn *ssa.Function, a []Value) Value {
			if ex.vfs == nil {
				return &Agg{E: []Value{&Ptr{C: ex.newFileCell(fn, 0)}, nilErr()}}
			}
			return ex.openFile(fn, ex.concStr(a[0].(*StrVal)), true, true)
		},
		"os.Open": func(ex *Exec, fn *ssa.Function, a []Value) Value {
			if ex.vfs == nil {
				return &Agg{E: []Value{&Ptr{C: ex.newFileCell(fn, 0)}, nilErr()}}
			}
			return ex.openFile(fn, ex.concStr(a[0].(*StrVal)), false, false)
		},
		"os.Rename": func(ex *Exec, fn *ssa.Function, a []Value) Value {
			if ex.vfs == nil {
				return nilErr()
			}
			v := ex.vfs
			from, to := ex.concStr(a[0].(*StrVal)), ex.concStr(a[1].(*StrVal))
			n := v.nodes[from]
			if n == nil {
				return ex.pathErr("notexist")
			}
			if t := v.nodes[to]; t != nil && t.dir && len(v.children(to)) > 0 {
				return ex.pathErr("exist")
			}
			ex.crashPoint("rename " + from + " -> " + to)
			if v.dirty[from] {
				v.renamedDirty = true
			}
			v.dirty[to] = v.dirty[from]
			delete(v.dirty, from)
			v.removeAll(to)
			v.nodes[to] = n
			delete(v.nodes, from)
			prefix := from + "/"
			moved := map[string]*vnode{}
			for q, qn := range v.nodes {
				if strings.HasPrefix(q, prefix) {
					moved[to+"/"+q[len(prefix):]] = qn
					delete(v.nodes, q)
				}
			}
			for q, qn := range moved {
				v.nodes[q] = qn
			}
			v.logOp("rename " + from + " -> " + to)
			ex.vfsEvent("rename", to)
			return nilErr()
		},
		"os.Remove": func(ex *Exec, fn *ssa.Function, a []Value) Value {
			if ex.vfs == nil {
				return nilErr()
			}
			p := ex.concStr(a[0].(*StrVal))
			if !ex.vfs.exists(p) {
				return ex.pathErr("notexist")
			}
			if n := ex.vfs.nodes[p]; n != nil && n.dir && len(ex.vfs.children(p)) > 0 {
				// os.Remove is not recursive: a directory that still has entries stays (ENOTEMPTY)
				return ex.pathErr("notempty")
			}
			ex.crashPoint("remove " + p)
			delete(ex.vfs.nodes, p)
			ex.vfs.logOp("remove " + p)
			return nilErr()
		},
		"os.RemoveAll": func(ex *Exec, fn *ssa.Function, a []Value) Value {
			if ex.vfs == nil {
				return nilErr()
			}
			p := ex.concStr(a[0].(*StrVal))
			if ex.vfs.exists(p) {
				ex.crashPoint("removeall " + p)
				ex.vfs.removeAll(p)
				ex.vfs.logOp("removeall " + p)
			}
			return nilErr()
		},
		"os.MkdirAll": func(ex *Exec, fn *ssa.Function, a []Value) Value {
			if ex.vfs == nil {
				return nilErr()
			}
			p := ex.concStr(a[0].(*StrVal))
			parts := strings.Split(strings.TrimPrefix(p, "/"), "/")
			cur := ""
			for _, part := range parts {
				cur += "/" + part
				if n := ex.vfs.nodes[cur]; n == nil {
					ex.crashPoint("mkdir " + cur)
					ex.vfs.nodes[cur] = &vnode{dir: true}
				} else if !n.dir {
					return ex.newError("vfs:not-a-directory", nil)
				}
			}
			return nilErr()
		},
		"os.Stat": func(ex *Exec, fn *ssa.Function, a []Value) Value {
			if ex.vfs == nil {
				ex.fatal("os.Stat without vfs")
			}
			p := ex.concStr(a[0].(*StrVal))
			n := ex.vfs.nodes[p]
			if n == nil {
				return &Agg{E: []Value{&IfaceVal{}, ex.pathErr("notexist")}}
			}
			return &Agg{E: []Value{ex.harnessObj("vFileInfo", &StrVal{S: filepath.Base(p)}, mkBool(n.dir)), nilErr()}}
		},
		"os.ReadFile": func(ex *Exec, fn *ssa.Function, a []Value) Value {
			if ex.vfs == nil {
				ex.fatal("os.ReadFile without vfs")
			}
			p := ex.concStr(a[0].(*StrVal))
			n := ex.vfs.nodes[p]
			if n == nil || n.dir {
				return &Agg{E: []Value{&SliceVal{}, ex.pathErr("notexist")}}
			}
			ex.blobSeq++
			chunks := append([]*vchunk{}, n.file.chunks...)
			return &Agg{E: []Value{&SliceVal{Blob: &Blob{ID: ex.blobSeq, Len: offsetOf(n.file, len(chunks)), Kind: "filecontent", Msg: chunks}}, nilErr()}}
		},
		"os.ReadDir": func(ex *Exec, fn *ssa.Function, a []Value) Value {
			if ex.vfs == nil {
				ex.fatal("os.ReadDir without vfs")
			}
			p := ex.concStr(a[0].(*StrVal))
			n := ex.vfs.nodes[p]
			st := fn.Signature.Results().At(0).Type().Underlying().(*types.Slice)
			if n == nil || !n.dir {
				return &Agg{E: []Value{&SliceVal{}, ex.pathErr("notexist")}}
			}
			names := ex.vfs.children(p)
			arr := ex.newArrayCell(st.Elem(), len(names))
			for i, name := range names {
				arr.Kids[i].V = ex.harnessObj("vDirEntry", &StrVal{S: name}, mkBool(ex.vfs.nodes[p+"/"+name].dir))
			}
			return &Agg{E: []Value{&SliceVal{Arr: arr, Len: len(names), Cap: len(names)}, nilErr()}}
		},
		"path/filepath.Walk": func(ex *Exec, fn *ssa.Function, a []Value) Value {
			if ex.vfs == nil {
				return nilErr()
			}
			root := ex.concStr(a[0].(*StrVal))
			fnv := a[1].(*FuncVal)
			var e Value
			if !ex.vfs.exists(root) {
				e = ex.callFuncVal(fnv, &StrVal{S: root}, &IfaceVal{}, ex.pathErr("notexist"))
			} else {
				e = ex.walk(root, fnv)
			}
			if isSkipDir(ex, e) {
				return nilErr()
			}
			return e
		},
		"regexp.Compile": func(ex *Exec, fn *ssa.Function, a []Value) Value {
			pat := ex.concStr(a[0].(*StrVal))
			if _, err := regexp.Compile(pat); err != nil {
				return &Agg{E: []Value{&Ptr{}, ex.newError("regexp", nil)}}
			}
			if ex.vfs == nil {
				ex.fatal("regexp without vfs")
			}
			c := ex.newFileCell(fn, 0)
			ex.vfs.regexps[c] = pat
			return &Agg{E: []Value{&Ptr{C: c}, nilErr()}}
		},
		"(*regexp.Regexp).MatchString": func(ex *Exec, fn *ssa.Function, a []Value) Value {
			pat := ex.vfs.regexps[a[0].(*Ptr).C]
			return mkBool(regexp.MustCompile(pat).MatchString(ex.concStr(a[1].(*StrVal))))
		},
		"fmt.Sscanf": func(ex *Exec, fn *ssa.Function, a []Value) Value {
			// only the one use in snapshot_storage.go: Sscanf(s, "snapshot-%d", &int64)
			in, format := ex.concStr(a[0].(*StrVal)), ex.concStr(a[1].(*StrVal))
			args := ex.sliceElems(a[2].(*SliceVal))
			if format != "snapshot-%d" || len(args) != 1 {
				ex.fatal("fmt.Sscanf format not modelled: %q", format)
			}
			var ts int64
			n, err := fmt.Sscanf(in, format, &ts)
			if n == 1 {
				ex.store(args[0].(*IfaceVal).Val.(*Ptr).C, mkConst(64, uint64(ts)))
			}
			if err != nil {
				return &Agg{E: []Value{mkConst(64, uint64(n)), ex.newError("sscanf", nil)}}
			}
			return &Agg{E: []Value{mkConst(64, uint64(n)), nilErr()}}
		},
		"sort.Slice": func(ex *Exec, fn *ssa.Function, a []Value) Value {
			s := a[0].(*IfaceVal).Val.(*SliceVal)
			less := a[1].(*FuncVal)
			if s.Len > 12 {
				ex.fatal("sort.Slice on more than 12 elements is outside the model (Go switches algorithm)")
			}
			// insertion sort, as sort.Slice does for n <= 12
			for i := 1; i < s.Len; i++ {
				for j := i; j > 0; j-- {
					lt := ex.callFuncVal(less, mkConst(64, uint64(j)), mkConst(64, uint64(j-1))).(*Term)
					if !ex.branch(lt) {
						break
					}
					x, y := s.Arr.Kids[s.Off+j], s.Arr.Kids[s.Off+j-1]
					vx, vy := ex.load(x), ex.load(y)
					ex.store(x, vy)
					ex.store(y, vx)
				}
			}
			return nil
		},
		"google.golang.org/protobuf/proto.Marshal": func(ex *Exec, fn *ssa.Function, a []Value) Value {
			ex.blobSeq++
			msg := a[0].(*IfaceVal)
			var ln *Term
			snap := ex.load(msg.Val.(*Ptr).C)
			zc, zok := ex.zeroCond(snap)
			if allZero(snap) || (zok && ex.branch(zc)) {
				ln = mkConst(64, 0) // proto3: a message with only default values encodes to zero bytes
			} else {
				ln = ex.newVar("marshal.len", 64)
				ex.assume(mkAnd(mkCmp("bvule", mkConst(64, 2), ln), mkCmp("bvult", ln, mkConst(64, 1<<31))))
			}
			return &Agg{E: []Value{&SliceVal{Blob: &Blob{ID: ex.blobSeq, Len: ln, Kind: "proto:" + typeStr(msg.Typ), Msg: snap, MsgType: msg.Typ}}, nilErr()}}
		},
		"google.golang.org/protobuf/proto.Unmarshal": func(ex *Exec, fn *ssa.Function, a []Value) Value {
			buf := a[0].(*SliceVal)
			msg := a[1].(*IfaceVal)
			if buf.Blob == nil {
				if buf.Len == 0 {
					return nilErr() // empty input = message with default values
				}
				return ex.newError("unmarshal:not-a-codec-output", nil)
			}
			b := buf.Blob
			if b.Kind == "proto:"+typeStr(msg.Typ) {
				ex.store(msg.Val.(*Ptr).C, b.Msg.(Value))
				return nilErr()
			}
			if b.Len.IsConst() && b.Len.C == 0 {
				return nilErr()
			}
			if b.Kind == "garbage" {
				// bytes that are not one complete codec output: the library may fail or decode junk
				if ex.branch(ex.newVar("unmarshal.junk-accepted", 0)) {
					ex.tags["misparse"] = "junk-decoded"
					return nilErr()
				}
			}
			return ex.newError("unmarshal:"+b.Kind, nil)
		},
		"encoding/json.Marshal": func(ex *Exec, fn *ssa.Function, a []Value) Value {
			ex.blobSeq++
			iv := a[0].(*IfaceVal)
			var snap Value
			if p, ok := iv.Val.(*Ptr); ok {
				snap = ex.load(p.C)
			} else {
				snap = iv.Val
			}
			ln := ex.newVar("jsonmarshal.len", 64)
			ex.assume(mkAnd(mkCmp("bvule", mkConst(64, 2), ln), mkCmp("bvult", ln, mkConst(64, 1<<31))))
			return &Agg{E: []Value{&SliceVal{Blob: &Blob{ID: ex.blobSeq, Len: ln, Kind: "json", Msg: snap, MsgType: iv.Typ}}, nilErr()}}
		},
		"encoding/json.Unmarshal": func(ex *Exec, fn *ssa.Function, a []Value) Value {
			buf := a[0].(*SliceVal)
			target := a[1].(*IfaceVal).Val.(*Ptr).C
			if buf.Blob != nil && buf.Blob.Kind == "filecontent" {
				chunks := buf.Blob.Msg.([]*vchunk)
				if len(chunks) == 1 && chunks[0].kind == 1 && chunks[0].full && chunks[0].blob.Kind == "json" {
					ex.store(target, chunks[0].blob.Msg.(Value))
					return nilErr()
				}
			}
			if buf.Blob != nil && buf.Blob.Kind == "json" {
				ex.store(target, buf.Blob.Msg.(Value))
				return nilErr()
			}
			return ex.newError("json:unmarshal", nil)
		},
		"io.ReadAll": func(ex *Exec, fn *ssa.Function, a []Value) Value {
			chunks, pos, ok := ex.sourceOf(a[0])
			if !ok {
				ex.fatal("io.ReadAll on a reader that is not vfs-backed")
			}
			rest := append([]*vchunk{}, (*chunks)[*pos:]...)
			*pos = len(*chunks)
			ex.blobSeq++
			return &Agg{E: []Value{&SliceVal{Blob: &Blob{ID: ex.blobSeq, Len: offsetOfChunks(rest, len(rest)), Kind: "filecontent", Msg: rest}}, nilErr()}}
		},
		"encoding/binary.Write": func(ex *Exec, fn *ssa.Function, a []Value) Value {
			if ex.vfs == nil {
				return nilErr()
			}
			w := a[0].(*IfaceVal)
			val, ok := a[2].(*IfaceVal).Val.(*Term)
			if !ok || val.W != 32 {
				ex.fatal("binary.Write of a non-int32 value")
			}
			p, isP := w.Val.(*Ptr)
			if !isP {
				ex.fatal("binary.Write to a writer that is not a vfs file")
			}
			h := ex.vfs.handles[p.C]
			if h == nil {
				ex.fatal("binary.Write to a writer that is not a vfs file")
			}
			if h.closed {
				return ex.pathErr("closed")
			}
			ex.crashPoint("write-header " + h.path)
			if ex.vfs.crashOn {
				c := ex.newVar(fmt.Sprintf("crash.inside.op%d", ex.vfs.ops), 0)
				if ex.branch(c) {
					k := 1
					for ; k < 3; k++ {
						if ex.branch(ex.newVar(fmt.Sprintf("crash.hdrcut%d.op%d", k, ex.vfs.ops), 0)) {
							break
						}
					}
					ex.appendChunk(h, &vchunk{kind: 0, val: val, hbytes: k})
					ex.choices["crash.op"] = uint64(ex.vfs.ops)
					ex.choices["crash.hdrbytes"] = uint64(k)
					ex.tags["crash"] = "inside-header-write"
					panic(crashSignal{})
				}
			}
			ex.appendChunk(h, &vchunk{kind: 0, val: val, hbytes: 4})
			ex.vfs.logOp("write header " + h.path)
			return nilErr()
		},
		"encoding/binary.Read": func(ex *Exec, fn *ssa.Function, a []Value) Value {
			chunks, pos, ok := ex.sourceOf(a[0])
			if !ok {
				ex.fatal("binary.Read from a reader that is not vfs-backed")
			}
			target := a[2].(*IfaceVal).Val.(*Ptr).C
			val, err := ex.readHeader(*chunks, pos)
			if val != nil {
				ex.store(target, val)
			}
			return err
		},
		"bufio.NewReader": func(ex *Exec, fn *ssa.Function, a []Value) Value {
			if ex.vfs == nil {
				ex.fatal("bufio.NewReader without vfs")
			}
			// reading is modelled directly on the underlying file (whose position therefore ends where
			// reading stopped; the real buffered reader reads ahead, which only matters if the file is
			// written again after a read that stopped early)
			c := ex.newFileCell(fn, 0)
			if h, isH := a[0].(*IfaceVal).Val.(*Ptr); isH {
				if fh := ex.vfs.handles[h.C]; fh != nil {
					ex.vfs.handles[c] = fh
					return &Ptr{C: c}
				}
			}
			ex.fatal("bufio.NewReader over a reader that is not a vfs file")
			return nil
		},
		// B1 binding: the in-memory entries of a persistentLog stand for its durable content
		// (justified by C12: memory is published only after Sync), so reopening is the identity.
		"(*github.com/jmsadair/raft.persistentLog).Open": func(ex *Exec, fn *ssa.Function, a []Value) Value {
			if ex.vfs != nil {
				return ex.callFunction(fn, a, nil)
			}
			c := a[0].(*Ptr).C
			fc, ec := plField(c, "file"), plField(c, "entries")
			if p := fc.V.(*Ptr); p.C == nil {
				fc.V = &Ptr{C: ex.newCell(fc.T.(*types.Pointer).Elem())}
			}
			if d, ok := ex.ghost[fmt.Sprintf("durable-log:%d", c.id)]; ok {
				ec.V = d
			}
			return nilErr()
		},
		"(*github.com/jmsadair/raft.persistentLog).Close": func(ex *Exec, fn *ssa.Function, a []Value) Value {
			if ex.vfs != nil {
				return ex.callFunction(fn, a, nil)
			}
			c := a[0].(*Ptr).C
			fc, ec := plField(c, "file"), plField(c, "entries")
			if p := fc.V.(*Ptr); p.C == nil {
				return nilErr()
			}
			// the durable content is what memory held when the file was closed
			src := ec.V.(*SliceVal)
			cp := ex.appendSlice(&SliceVal{}, ec.T.Underlying().(*types.Slice).Elem(), ex.sliceElems(src))
			ex.ghost[fmt.Sprintf("durable-log:%d", c.id)] = cp
			ec.V = &SliceVal{}
			fc.V = &Ptr{}
			return nilErr()
		},
		"(*github.com/jmsadair/raft.persistentLog).Replay": func(ex *Exec, fn *ssa.Function, a []Value) Value {
			if ex.vfs != nil {
				return ex.callFunction(fn, a, nil)
			}
			return nilErr()
		},
	}
	for k, v := range m {
		intercepts[k] = v
	}
	registerIOModels()
}

// zeroCond returns the condition under which a (partly symbolic) value has only default values; ok is false
// when that is impossible or not expressible (a non-zero constant, a non-empty container).
func (ex *Exec) zeroCond(v Value) (*Term, bool) {
	switch x := v.(type) {
	case *Term:
		if x.IsConst() {
			return tTrue, x.C == 0
		}
		if x.W == 0 {
			return mkNot(x), true
		}
		return mkCmp("=", x, mkConst(x.W, 0)), true
	case *StrVal:
		if x.Sym == nil {
			return tTrue, x.S == ""
		}
		return ex.strEq(x, &StrVal{S: ""}), true
	case *Agg:
		c := tTrue
		for _, e := range x.E {
			ec, ok := ex.zeroCond(e)
			if !ok {
				return nil, false
			}
			c = mkAnd(c, ec)
		}
		return c, true
	}
	return tTrue, allZero(v)
}

func allZero(v Value) bool {
	switch x := v.(type) {
	case *Term:
		return x.IsConst() && x.C == 0
	case *StrVal:
		return x.Sym == nil && x.S == ""
	case *Agg:
		for _, e := range x.E {
			if !allZero(e) {
				return false
			}
		}
		return true
	case *SliceVal:
		return x.Blob == nil && x.Len == 0
	case *Ptr:
		return x.C == nil
	case *MapObj:
		return x == nil || len(x.Cells) == 0
	case *IfaceVal:
		return x.Typ == nil
	case *FuncVal:
		return x.Fn == nil
	}
	return false
}

// vfsEvent lets harness-visible ghost state record the order of durable events (C12.order).
func (ex *Exec) vfsEvent(kind, path string) {
	key := "vfs-events"
	n := 0
	if v, ok := ex.ghost[key]; ok {
		n = int(v.(*Term).C)
	}
	ex.ghost[key] = mkConst(64, uint64(n+1))
	ex.ghost[fmt.Sprintf("vfs-event:%d", n)] = &StrVal{S: kind + " " + path}
}
