package main

import (
	"fmt"
	"go/token"
	"go/types"
	"os"
	"path/filepath"
	"sort"
	"strings"
	"sync"

	"golang.org/x/tools/go/packages"
	"golang.org/x/tools/go/ssa"
	"golang.org/x/tools/go/ssa/ssautil"
)

const raftPath = "github.com/jmsadair/raft"

// World is the immutable (after load) program shared by all workers.
type World struct {
	prog         *ssa.Program
	fset         *token.FileSet
	raftPkg      *ssa.Package
	errStringPtr types.Type

	mu       sync.Mutex
	strs     []string
	strIdx   map[string]int
	methodMu sync.Mutex
	methods  map[string]*ssa.Function
}

// LoadWorld loads /repo with the harness overlay and builds SSA for the module's packages.
func LoadWorld(repo, harnessDir string) (*World, error) {
	overlay := map[string][]byte{}
	files, _ := filepath.Glob(filepath.Join(harnessDir, "*.go"))
	sort.Strings(files)
	for _, f := range files {
		if strings.HasSuffix(f, "_test.go") {
			continue
		}
		b, err := os.ReadFile(f)
		if err != nil {
			return nil, err
		}
		overlay[filepath.Join(repo, filepath.Base(f))] = b
	}
	cfg := &packages.Config{
		Mode: packages.NeedName | packages.NeedFiles | packages.NeedCompiledGoFiles | packages.NeedImports |
			packages.NeedDeps | packages.NeedTypes | packages.NeedSyntax | packages.NeedTypesInfo | packages.NeedTypesSizes | packages.NeedModule,
		Dir:     repo,
		Overlay: overlay,
		Env:     append(os.Environ(), "GOFLAGS=-mod=mod", "GOPROXY=off", "GOSUMDB=off", "GOTOOLCHAIN=local"),
	}
	pkgs, err := packages.Load(cfg, ".")
	if err != nil {
		return nil, err
	}
	var errs []string
	packages.Visit(pkgs, nil, func(p *packages.Package) {
		for _, e := range p.Errors {
			errs = append(errs, e.Error())
		}
	})
	if len(errs) > 0 {
		if len(errs) > 12 {
			errs = errs[:12]
		}
		return nil, fmt.Errorf("package load errors (harness does not type-check against /repo?):\n  %s", strings.Join(errs, "\n  "))
	}
	prog, _ := ssautil.AllPackages(pkgs, ssa.InstantiateGenerics)
	w := &World{prog: prog, fset: prog.Fset, strIdx: map[string]int{}, methods: map[string]*ssa.Function{}}
	for _, p := range prog.AllPackages() {
		path := p.Pkg.Path()
		if path == raftPath || strings.HasPrefix(path, raftPath+"/") {
			p.Build()
		}
		if path == raftPath {
			w.raftPkg = p
		}
		if path == "errors" {
			if t := p.Type("errorString"); t != nil {
				w.errStringPtr = types.NewPointer(t.Type())
			}
		}
	}
	if w.raftPkg == nil {
		return nil, fmt.Errorf("package %s not found", raftPath)
	}
	if w.errStringPtr == nil {
		return nil, fmt.Errorf("errors.errorString not found")
	}
	w.intern("")
	return w, nil
}

func (w *World) allowed(fn *ssa.Function) bool {
	if fn.Synthetic != "" && fn.Pkg == nil {
		// wrappers for promoted / bound methods and thunks only forward
		return true
	}
	p := fn.Pkg
	if p == nil {
		// synthetic wrappers / generic instantiations: look at origin or receiver
		if o := fn.Origin(); o != nil && o.Pkg != nil {
			p = o.Pkg
		} else if fn.Object() != nil && fn.Object().Pkg() != nil {
			path := fn.Object().Pkg().Path()
			return path == raftPath || strings.HasPrefix(path, raftPath+"/")
		} else {
			// bound method closures and wrappers without object: allow (they only forward)
			return true
		}
	}
	path := p.Pkg.Path()
	return path == raftPath || strings.HasPrefix(path, raftPath+"/")
}

func (w *World) lookupMethod(t types.Type, m *types.Func) *ssa.Function {
	key := t.String() + "|" + m.Name()
	w.methodMu.Lock()
	defer w.methodMu.Unlock()
	if f, ok := w.methods[key]; ok {
		return f
	}
	ms := w.prog.MethodSets.MethodSet(t)
	sel := ms.Lookup(m.Pkg(), m.Name())
	if sel == nil {
		w.methods[key] = nil
		return nil
	}
	f := w.prog.MethodValue(sel)
	w.methods[key] = f
	return f
}

func (w *World) intern(s string) int {
	w.mu.Lock()
	defer w.mu.Unlock()
	if i, ok := w.strIdx[s]; ok {
		return i
	}
	w.strs = append(w.strs, s)
	w.strIdx[s] = len(w.strs) - 1
	return len(w.strs) - 1
}

func (w *World) internRev(i int) string {
	w.mu.Lock()
	defer w.mu.Unlock()
	if i < 0 || i >= len(w.strs) {
		return fmt.Sprintf("<str%d>", i)
	}
	return w.strs[i]
}

func (w *World) internCount() int {
	w.mu.Lock()
	defer w.mu.Unlock()
	return len(w.strs)
}

func (w *World) noteFunc(res *HarnessResult, fn *ssa.Function) {
	name := fn.String()
	if _, ok := res.Funcs[name]; ok {
		return
	}
	n := 0
	for _, b := range fn.Blocks {
		n += len(b.Instrs)
	}
	res.Funcs[name] = n
}

func (w *World) findFunc(name string) *ssa.Function {
	return w.raftPkg.Func(name)
}
