package main

import (
	"bytes"
	"context"
	"encoding/json"
	"flag"
	"fmt"
	"os"
	"os/exec"
	"path/filepath"
	"runtime"
	"sort"
	"strconv"
	"strings"
	"time"
)

// Registry describes which harness entries serve which properties and under what bounds.
type Registry struct {
	Defaults  map[string]map[string]int `json:"defaults"` // tier -> bounds
	Harnesses []RegHarness              `json:"harnesses"`
	Notes     map[string]PropNote       `json:"properties"`
	Depends   map[string][]string       `json:"depends"` // lemma properties whose obligations a property's argument rests on
}

type RegHarness struct {
	Name   string                    `json:"name"`
	Props  []string                  `json:"props"`
	Covers []string                  `json:"covers"`
	Bounds map[string]map[string]int `json:"bounds"` // tier -> bounds
	Tiers  []string                  `json:"tiers"`  // if set, only run in these tiers
	What   string                    `json:"what"`
}

type PropNote struct {
	Assumptions []string `json:"assumptions"`
	Explanation string   `json:"explanation"`
	Outside     []string `json:"outside"`
}

type KnownFindings struct {
	Findings []KnownFinding `json:"findings"`
	Fixed    []string       `json:"fixed"`
}

type KnownFinding struct {
	Property string            `json:"property"`
	Harness  string            `json:"harness"`
	Label    string            `json:"label"`
	Kind     string            `json:"kind,omitempty"`
	Detail   string            `json:"detail,omitempty"`
	Tags     map[string]string `json:"tags,omitempty"`
	What     string            `json:"what"`
}

func labelProps(label string) []string {
	head := label
	if i := strings.Index(label, "."); i >= 0 {
		head = label[:i]
	}
	return strings.Split(head, "|")
}

// relevantProps is the property being checked plus (thorough tier) its lemma properties.
var relevantProps []string

// knownLabels holds "harness|label" of every listed known finding: a failure with such a signature is recorded and
// reported (KNOWN-FINDING, or VIOLATION if its tags do not match), but the path continues WITHOUT assuming the failed
// obligation, so that a known finding never hides the obligations behind it on the same path.
var knownLabels = map[string]bool{}
var knownAnyHarness = map[string]bool{}

func labelHas(label, prop string) bool {
	for _, p := range labelProps(label) {
		if p == prop || p == "INV" || p == "GUAR" || p == "MSG" {
			return true
		}
		if len(relevantProps) > 0 && relevantProps[0] == prop && contains(relevantProps[1:], p) {
			return true
		}
	}
	return false
}

func containsAny(xs, ys []string) bool {
	for _, y := range ys {
		if contains(xs, y) {
			return true
		}
	}
	return false
}

func (k *KnownFinding) matches(prop string, f *Failure) bool {
	if k.Property != prop || k.Label != f.Label {
		return false
	}
	if k.Harness != "" && k.Harness != f.Harness {
		return false
	}
	if k.Kind != "" && k.Kind != f.Kind {
		return false
	}
	if k.Detail != "" && k.Detail != f.Detail {
		return false
	}
	for t, v := range k.Tags {
		if f.Tags[t] != v {
			return false
		}
	}
	return true
}

func cmdCheck(args []string) int {
	fs := flag.NewFlagSet("check", flag.ExitOnError)
	repo := fs.String("repo", "/repo", "repository")
	vdir := fs.String("verif", "/verif", "verif directory")
	tier := fs.String("tier", "quick", "quick|thorough")
	workers := fs.Int("workers", runtime.NumCPU(), "workers")
	solver := fs.String("solver", "z3-new", "primary solver")
	only := fs.String("only", "", "run only this harness")
	noReplay := fs.Bool("no-replay", false, "skip native replay (debugging)")
	verbose := fs.Bool("v", false, "verbose")
	fs.Parse(args[1:])
	prop := args[0]
	if t := os.Getenv("VERIF_TIER"); t == "quick" || t == "thorough" {
		*tier = t
	}
	seed := 0
	if s := os.Getenv("VERIF_SEED"); s != "" {
		seed, _ = strconv.Atoi(s)
	}
	t0 := time.Now()
	hdir := filepath.Join(*vdir, "harness")

	var reg Registry
	if b, err := os.ReadFile(filepath.Join(hdir, "registry.json")); err != nil {
		fmt.Println("INCONCLUSIVE: cannot read registry:", err)
		return 2
	} else if err := json.Unmarshal(b, &reg); err != nil {
		fmt.Println("INCONCLUSIVE: bad registry:", err)
		return 2
	}
	var known KnownFindings
	if b, err := os.ReadFile(filepath.Join(*vdir, "known_findings.json")); err == nil {
		if err := json.Unmarshal(b, &known); err != nil {
			fmt.Println("INCONCLUSIVE: bad known_findings.json:", err)
			return 2
		}
	}

	for _, k := range known.Findings {
		knownLabels[k.Harness+"|"+k.Label] = true
		knownAnyHarness[k.Label] = true
	}

	w, err := LoadWorld(*repo, hdir)
	if err != nil {
		fmt.Println("INCONCLUSIVE: cannot load /repo with harness overlay:", err)
		writeEvidence(*vdir, prop, *tier, seed, nil, &reg, nil, 0, []string{"load error: " + err.Error()}, time.Since(t0).Seconds(), 0, 0)
		return 2
	}

	var results []*HarnessResult
	var inconclusive []string
	// thorough tier: the obligations of the lemma properties this property's argument rests on count too
	relevantProps = []string{prop}
	if *tier == "thorough" {
		relevantProps = append(relevantProps, reg.Depends[prop]...)
	}
	for _, h := range reg.Harnesses {
		if !containsAny(h.Props, relevantProps) {
			continue
		}
		if *only != "" && h.Name != *only {
			continue
		}
		if len(h.Tiers) > 0 && !contains(h.Tiers, *tier) {
			continue
		}
		b := defaultBounds()
		for k, v := range reg.Defaults[*tier] {
			b[k] = v
		}
		for k, v := range h.Bounds[*tier] {
			b[k] = v
		}
		if prop == "C20" {
			// lock discipline does not depend on log sizes: the quick tier uses the smallest shapes
			b["locks"] = 1
			if *tier == "quick" {
				b["log"], b["entries"], b["chunk"] = 1, 1, 1
			}
		}
		res := Explore(w, h.Name, b, *workers, *solver, prop)
		if len(res.SolverErrs) > 0 {
			// An `(error` line makes everything a solver process answered afterwards untrustworthy (on a loaded machine
			// z3's wall-clock timer can cancel the *next* command, e.g. "push canceled", and unbalance the stack). The
			// harness is explored once more from scratch with fresh solver processes; an error that recurs stays
			// inconclusive.
			first := res.SolverErrs[0]
			fmt.Printf("harness %-28s solver error (%s): explored once more with fresh solver processes\n", h.Name, first)
			res = Explore(w, h.Name, b, *workers, *solver, prop)
		}
		results = append(results, res)
		if *verbose {
			printResult(res, true)
		} else {
			fmt.Printf("harness %-28s paths=%v queries=%d solver=%.1fs wall=%.1fs\n", h.Name, res.Paths, res.Queries, res.SolverSec, res.WallSec)
		}
		for _, n := range res.Notes {
			inconclusive = append(inconclusive, h.Name+": "+n)
		}
		for _, c := range h.Covers {
			if res.Covers[c] == 0 {
				inconclusive = append(inconclusive, fmt.Sprintf("%s: vacuity guard: cover label %q never reached on a passing path", h.Name, c))
			}
		}
		if res.Paths["PASS"] == 0 {
			inconclusive = append(inconclusive, h.Name+": no passing path (vacuous harness)")
		}
	}
	if len(results) == 0 {
		fmt.Println("INCONCLUSIVE: no harness registered for", prop)
		return 2
	}
	// cross-solver check (thorough tier): every harness is explored again at the quick bounds with z3 5.1.0
	// and with z3 4.8.12; path outcomes and per-obligation verdict counts must agree exactly
	crossChecked, crossDisagree := 0, 0
	if *tier == "thorough" && os.Getenv("VERIF_NO_CROSS") == "" {
		for _, h := range reg.Harnesses {
			if !contains(h.Props, prop) || (*only != "" && h.Name != *only) {
				continue
			}
			b := defaultBounds()
			for k, v := range reg.Defaults["quick"] {
				b[k] = v
			}
			for k, v := range h.Bounds["quick"] {
				b[k] = v
			}
			b["solver_ms"] = 60000
			if prop == "C20" {
				b["locks"], b["log"], b["entries"], b["chunk"] = 1, 1, 1, 1
			}
			r1 := Explore(w, h.Name, b, *workers, "z3-new", prop)
			r2 := Explore(w, h.Name, b, *workers, "z3", prop)
			crossChecked++
			if d := diffResults(r1, r2); d != "" {
				crossDisagree++
				inconclusive = append(inconclusive, fmt.Sprintf("cross-solver disagreement on %s (z3 5.1.0 vs z3 4.8.12): %s", h.Name, d))
			}
			fmt.Printf("cross-solver %-24s z3-5.1: paths=%v  z3-4.8.12: paths=%v (%.1fs)\n", h.Name, r1.Paths, r2.Paths, r2.WallSec)
		}
	}
	crossSolverStats = map[string]any{"harnesses_rerun_at_quick_bounds_with_z3_4.8.12": crossChecked, "disagreements": crossDisagree}

	if prop == "C20" {
		locksetFailures(results)
	}
	// translator self-test: witnesses of passing symbolic paths must also pass natively
	selfTested, selfFailed := 0, 0
	var rpShared *replayer
	if !*noReplay {
		want := 2
		if *tier == "thorough" {
			want = 8
		}
		sdir := filepath.Join(*vdir, "replays", prop, "selftest")
		os.RemoveAll(sdir)
		for _, r := range results {
			smp := spreadSamples(r.Samples, want)
			for i, s := range smp {
				if rpShared == nil {
					rpShared, err = newReplayer(*repo, hdir, w)
					if err != nil {
						inconclusive = append(inconclusive, "cannot build native replay binary: "+err.Error())
						break
					}
					defer rpShared.Close()
					os.MkdirAll(sdir, 0o755)
				}
				path := filepath.Join(sdir, fmt.Sprintf("%s-%d.json", r.Harness, i))
				j, _ := json.MarshalIndent(map[string]any{"harness": r.Harness, "bounds": r.Bounds, "model": s["witness"], "image": s["image"], "label": "selftest", "kind": "PASS"}, "", " ")
				os.WriteFile(path, j, 0o644)
				ok, out := rpShared.ReplayPass(path, prop)
				selfTested++
				if !ok {
					selfFailed++
					inconclusive = append(inconclusive, fmt.Sprintf("translator self-test: a witness of a passing symbolic path of %s does not pass natively (replay=%s): %s", r.Harness, path, lastLines(out, 3)))
				}
			}
			if rpShared == nil && len(inconclusive) > 0 {
				break
			}
		}
	}
	_ = selfFailed
	// failures attributed to this property
	var mine []*Failure
	other := map[string]int{}
	for _, r := range results {
		for _, f := range r.Failures {
			if labelHas(f.Label, prop) {
				mine = append(mine, f)
			} else {
				other[f.Label]++
			}
		}
	}

	violations := 0
	knownHits := map[int]bool{}
	replayed := 0
	if len(mine) > 0 {
		rdir := filepath.Join(*vdir, "replays", prop)
		os.RemoveAll(rdir)
		os.MkdirAll(rdir, 0o755)
		rp := rpShared
		if !*noReplay && rp == nil {
			rp, err = newReplayer(*repo, hdir, w)
			if err != nil {
				inconclusive = append(inconclusive, "cannot build native replay binary: "+err.Error())
			} else {
				defer rp.Close()
			}
		}
		confirmed, tried, lastMiss := map[string]int{}, map[string]int{}, map[string]string{}
		for i, f := range mine {
			path := filepath.Join(rdir, fmt.Sprintf("%s-%d.json", f.Harness, i))
			writeReplayFile(path, f, boundsFor(results, f.Harness))
			kidx := -1
			for ki := range known.Findings {
				if known.Findings[ki].matches(prop, f) {
					kidx = ki
					break
				}
			}
			sig := f.Harness + "|" + f.Label + "|" + f.Kind + "|" + f.Detail
			if kidx >= 0 {
				sig += "|known" + strconv.Itoa(kidx)
			}
			reproduced := true
			if f.Kind == "LOCKSET" || f.Kind == "ENGINE" {
				// a fact of the explored paths themselves (an access executed without the lock held);
				// there is no single-threaded native run that could confirm or refute it
				if kidx >= 0 {
					knownHits[kidx] = true
				} else {
					violations++
					fmt.Printf("VIOLATION property=%s replay=%s\n", prop, path)
					fmt.Printf("  harness=%s label=%s %s\n", f.Harness, f.Label, f.Detail)
				}
				continue
			}
			if confirmed[sig] >= 1 || tried[sig] >= 8 {
				// this failure signature has been confirmed natively (or enough candidates were tried)
				continue
			}
			if rp != nil {
				ok, out := rp.Replay(path, f)
				replayed++
				tried[sig]++
				reproduced = ok
				if !ok {
					lastMiss[sig] = fmt.Sprintf("counterexample for %s in %s did not reproduce natively (encoding mismatch?) replay=%s: %s", f.Label, f.Harness, path, lastLines(out, 3))
				}
			}
			if !reproduced {
				continue
			}
			confirmed[sig]++
			if kidx >= 0 {
				knownHits[kidx] = true
				continue
			}
			violations++
			fmt.Printf("VIOLATION property=%s replay=%s\n", prop, path)
			fmt.Printf("  harness=%s label=%s kind=%s %s tags=%v\n", f.Harness, f.Label, f.Kind, f.Detail, f.Tags)
		}
		// a signature none of whose candidates reproduced natively is an encoding mismatch: inconclusive
		for sig, msg := range lastMiss {
			if confirmed[sig] == 0 {
				inconclusive = append(inconclusive, msg)
			}
		}
	}
	for ki := range known.Findings {
		if knownHits[ki] {
			k := known.Findings[ki]
			fmt.Printf("KNOWN-FINDING: property=%s %s [harness=%s label=%s]\n", prop, k.What, k.Harness, k.Label)
		}
	}
	for _, n := range inconclusive {
		fmt.Println("INCONCLUSIVE:", n)
	}
	wall := time.Since(t0).Seconds()
	selfTestCount = selfTested
	writeEvidence(*vdir, prop, *tier, seed, results, &reg, mine, violations, inconclusive, wall, replayed, len(knownHits))
	if violations > 0 {
		return 1
	}
	if len(inconclusive) > 0 {
		return 2
	}
	fmt.Printf("OK property=%s tier=%s harnesses=%d wall=%.1fs\n", prop, *tier, len(results), wall)
	return 0
}

var selfTestCount int
var crossSolverStats map[string]any

// diffResults compares path outcomes and per-label verdict counts of two explorations.
func diffResults(a, b *HarnessResult) string {
	for k, v := range a.Paths {
		if b.Paths[k] != v {
			return fmt.Sprintf("paths[%s] %d vs %d", k, v, b.Paths[k])
		}
	}
	for k, v := range b.Paths {
		if a.Paths[k] != v {
			return fmt.Sprintf("paths[%s] %d vs %d", k, a.Paths[k], v)
		}
	}
	for l, s := range a.Labels {
		t := b.Labels[l]
		if t == nil || *s != *t {
			return fmt.Sprintf("label %s: %+v vs %+v", l, s, t)
		}
	}
	return ""
}

// spreadSamples picks up to n samples spread over the list.
func spreadSamples(s []map[string]any, n int) []map[string]any {
	if len(s) <= n {
		return s
	}
	var out []map[string]any
	for i := 0; i < n; i++ {
		out = append(out, s[i*len(s)/n])
	}
	return out
}

func contains(xs []string, x string) bool {
	for _, y := range xs {
		if y == x {
			return true
		}
	}
	return false
}

func boundsFor(results []*HarnessResult, h string) map[string]int {
	for _, r := range results {
		if r.Harness == h {
			return r.Bounds
		}
	}
	return nil
}

func lastLines(s string, n int) string {
	ls := strings.Split(strings.TrimSpace(s), "\n")
	if len(ls) > n {
		ls = ls[len(ls)-n:]
	}
	return strings.Join(ls, " | ")
}

func writeReplayFile(path string, f *Failure, bounds map[string]int) {
	j, _ := json.MarshalIndent(map[string]any{
		"harness": f.Harness, "bounds": bounds, "model": f.Model, "label": f.Label, "kind": f.Kind,
		"detail": f.Detail, "tags": f.Tags, "stack": f.Stack, "image": f.Image,
	}, "", " ")
	os.WriteFile(path, j, 0o644)
}

// ---------------------------------------------------------------------------
// native replay

type replayer struct {
	dir     string
	bin     string
	cutMode string
}

const replayTestSrc = `package raft

import (
	"fmt"
	"os"
	"testing"
)

func TestVerifReplay(t *testing.T) {
	path := os.Getenv("VERIF_REPLAY")
	if path == "" {
		t.Skip("VERIF_REPLAY not set")
	}
	if err := vLoadReplay(path); err != nil {
		t.Fatal(err)
	}
	h, ok := vHarnessTable[vRT.file.Harness]
	if !ok {
		t.Fatalf("unknown harness %q", vRT.file.Harness)
	}
	defer vCleanupNative()
	defer func() {
		if r := recover(); r != nil {
			if _, ok := r.(vAssumeFalse); ok {
				fmt.Println("VERIF-ASSUME-FALSE")
				return
			}
			fmt.Printf("VERIF-PANIC label=%s %v\n", vRT.panicLbl, r)
		}
	}()
	h()
	fmt.Println("VERIF-REPLAY-END")
}
`

func newReplayer(repo, hdir string, w *World) (*replayer, error) {
	dir, err := os.MkdirTemp("", "symgo-replay-")
	if err != nil {
		return nil, err
	}
	rp := &replayer{dir: dir, bin: filepath.Join(dir, "raft.test")}
	ov := map[string]string{}
	files, _ := filepath.Glob(filepath.Join(hdir, "*.go"))
	for _, f := range files {
		ov[filepath.Join(repo, filepath.Base(f))] = f
	}
	// harness dispatch table
	var names []string
	for name := range w.raftPkg.Members {
		if strings.HasPrefix(name, "vh_") {
			names = append(names, name)
		}
	}
	sort.Strings(names)
	var sb strings.Builder
	sb.WriteString("package raft\n\nvar vHarnessTable = map[string]func(){\n")
	for _, n := range names {
		fmt.Fprintf(&sb, "\t%q: %s,\n", n, n)
	}
	sb.WriteString("}\n")
	tbl := filepath.Join(dir, "table_test.go")
	os.WriteFile(tbl, []byte(sb.String()), 0o644)
	tst := filepath.Join(dir, "replay_test.go")
	os.WriteFile(tst, []byte(replayTestSrc), 0o644)
	ov[filepath.Join(repo, "zz_verif_table_test.go")] = tbl
	ov[filepath.Join(repo, "zz_verif_replay_test.go")] = tst
	oj, _ := json.Marshal(map[string]any{"Replace": ov})
	ovPath := filepath.Join(dir, "overlay.json")
	os.WriteFile(ovPath, oj, 0o644)
	ctx, cancel := context.WithTimeout(context.Background(), 10*time.Minute)
	defer cancel()
	cmd := exec.CommandContext(ctx, "go", "test", "-c", "-vet=off", "-overlay", ovPath, "-o", rp.bin, ".")
	cmd.Dir = repo
	cmd.Env = append(os.Environ(), "GOFLAGS=-mod=mod", "GOPROXY=off", "GOSUMDB=off", "GOTOOLCHAIN=local")
	out, err := cmd.CombinedOutput()
	if err != nil {
		rp.Close()
		return nil, fmt.Errorf("go test -c failed: %v: %s", err, lastLines(string(out), 8))
	}
	return rp, nil
}

func (rp *replayer) Close() { os.RemoveAll(rp.dir) }

// Replay runs one counterexample natively and reports whether the same failure shows up.
func (rp *replayer) Replay(path string, f *Failure) (bool, string) {
	timeout := 30 * time.Second
	if f.Kind == "BLOCKS" {
		timeout = 8 * time.Second
	}
	if f.Image != nil && f.Kind == "ASSERT" && rp.cutMode == "" {
		// storage images: the byte cut inside a payload is relative to the model's payload length; try the
		// proportional cut first, then the longest and the shortest strict prefix of the real payload
		var out string
		for _, mode := range []string{"prop", "max", "min"} {
			rp.cutMode = mode
			ok, o := rp.Replay(path, f)
			rp.cutMode = ""
			out = o
			if ok {
				return true, o
			}
		}
		return false, out
	}
	ctx, cancel := context.WithTimeout(context.Background(), timeout)
	defer cancel()
	cmd := exec.CommandContext(ctx, rp.bin, "-test.run", "^TestVerifReplay$", "-test.v", "-test.timeout", "25s")
	cmd.Dir = rp.dir
	cmd.Env = append(os.Environ(), "VERIF_REPLAY="+path, "VERIF_CUT_MODE="+rp.cutMode)
	var buf bytes.Buffer
	cmd.Stdout = &buf
	cmd.Stderr = &buf
	err := cmd.Run()
	out := buf.String()
	switch f.Kind {
	case "ASSERT":
		if strings.Contains(out, "VERIF-ASSERT-FAIL "+f.Label+"\n") {
			return true, out
		}
		// the same counterexample may surface natively through another conjunct of the same property
		// (e.g. junk decoded by the real codec instead of an error): accept a failing label that shares
		// a property id with the symbolic one
		for _, line := range strings.Split(out, "\n") {
			if strings.HasPrefix(line, "VERIF-ASSERT-FAIL ") {
				for _, p := range labelProps(strings.TrimPrefix(line, "VERIF-ASSERT-FAIL ")) {
					for _, q := range labelProps(f.Label) {
						if p == q {
							return true, out
						}
					}
				}
			}
		}
		// ... or as a run-time panic inside the library, if the harness attributes panics to this property
		for _, line := range strings.Split(out, "\n") {
			if strings.HasPrefix(line, "VERIF-PANIC label=") {
				lbl := strings.Fields(strings.TrimPrefix(line, "VERIF-PANIC label="))[0]
				for _, p := range labelProps(lbl) {
					for _, q := range labelProps(f.Label) {
						if p == q {
							return true, out
						}
					}
				}
			}
		}
		return false, out
	case "PANIC":
		return strings.Contains(out, "VERIF-PANIC") || strings.Contains(out, "panic:") || strings.Contains(out, "fatal error:"), out
	case "FATAL":
		return strings.Contains(out, "FATAL: "), out
	case "BLOCKS":
		return ctx.Err() != nil || strings.Contains(out, "test timed out") || strings.Contains(out, "all goroutines are asleep") || (err != nil && strings.Contains(out, "deadlock")), out
	}
	return false, out
}

// ReplayPass runs a witness of a passing path natively: it must finish without any failed assertion,
// violated assumption or panic.
func (rp *replayer) ReplayPass(path string, prop string) (bool, string) {
	ctx, cancel := context.WithTimeout(context.Background(), 60*time.Second)
	defer cancel()
	cmd := exec.CommandContext(ctx, rp.bin, "-test.run", "^TestVerifReplay$", "-test.v", "-test.timeout", "50s")
	cmd.Dir = rp.dir
	cmd.Env = append(os.Environ(), "VERIF_REPLAY="+path)
	var buf bytes.Buffer
	cmd.Stdout = &buf
	cmd.Stderr = &buf
	cmd.Run()
	out := buf.String()
	// failed obligations of other properties are not assumed away on a passing path of this property's
	// run (see checkOne), so only this property's labels count here
	assertFail := false
	for _, line := range strings.Split(out, "\n") {
		if strings.HasPrefix(line, "VERIF-ASSERT-FAIL ") && labelHas(strings.TrimPrefix(line, "VERIF-ASSERT-FAIL "), prop) {
			// a listed known finding is not assumed away on a passing path either (see knownLabels)
			if knownAnyHarness[strings.TrimSpace(strings.TrimPrefix(line, "VERIF-ASSERT-FAIL "))] {
				continue
			}
			assertFail = true
		}
	}
	ok := strings.Contains(out, "VERIF-REPLAY-END") && !assertFail &&
		!strings.Contains(out, "VERIF-ASSUME-FALSE") && !strings.Contains(out, "VERIF-PANIC") && !strings.Contains(out, "FATAL: ")
	return ok, out
}

// ---------------------------------------------------------------------------
// evidence

func writeEvidence(vdir, prop, tier string, seed int, results []*HarnessResult, reg *Registry, mine []*Failure, violations int, inconclusive []string, wall float64, replayed, knownHits int) {
	paths := 0
	nontrivial := 0
	queries := 0
	solverS := 0.0
	obligations, discharged := 0, 0
	instances, instDischarged := 0, 0
	funcs := map[string]int{}
	var samples []any
	var hsum []map[string]any
	pathKinds := map[string]int{}
	for _, r := range results {
		for k, v := range r.Paths {
			paths += v
			pathKinds[k] += v
		}
		nontrivial += r.Nontrivial
		queries += r.Queries
		solverS += r.SolverSec
		for f, n := range r.Funcs {
			funcs[f] = n
		}
		labs := map[string]any{}
		for l, s := range r.Labels {
			if !labelHas(l, prop) {
				continue
			}
			obligations++
			instances += s.Checked
			instDischarged += s.Trivial + s.Discharged
			if s.Failed == 0 && s.Unknown == 0 && s.Checked > 0 {
				discharged++
			}
			labs[l] = map[string]int{"instances": s.Checked, "concretely_true": s.Trivial, "solver_unsat": s.Discharged, "failed": s.Failed, "unknown": s.Unknown}
		}
		hsum = append(hsum, map[string]any{"harness": r.Harness, "bounds": r.Bounds, "paths": r.Paths, "covers": r.Covers, "obligations": labs, "queries": r.Queries, "solver_s": round2(r.SolverSec), "wall_s": round2(r.WallSec)})
		for i, s := range r.Samples {
			if i < 2 && len(samples) < 8 {
				s2 := map[string]any{}
				for k, v := range s {
					if k != "image" {
						s2[k] = v
					}
				}
				samples = append(samples, s2)
			}
		}
	}
	if len(samples) == 0 {
		samples = append(samples, map[string]any{"note": "no passing path with a cover label was sampled in this run"})
	}
	var fnames []string
	ninstr := 0
	for f, n := range funcs {
		if strings.Contains(f, ".vh_") || strings.Contains(f, ".v") && strings.Contains(f, "raft.v") {
			continue
		}
		fnames = append(fnames, fmt.Sprintf("%s (%d instr)", f, n))
		ninstr += n
	}
	sort.Strings(fnames)
	note := reg.Notes[prop]
	var failsum []map[string]any
	for _, f := range mine {
		if len(failsum) < 20 {
			failsum = append(failsum, map[string]any{"harness": f.Harness, "label": f.Label, "kind": f.Kind, "detail": f.Detail, "tags": f.Tags})
		}
	}
	ev := map[string]any{
		"property_id": prop,
		"tier":        tier,
		"seed":        seed,
		"level":       "other",
		"coverage": map[string]any{
			"explanation":          "Bounded symbolic execution of the real code's go/ssa form (regenerated from /repo on this run) with an SMT solver deciding every branch feasibility and every assertion over all values of the symbolic inputs within the stated bounds. " + note.Explanation,
			"evaluations":          paths,
			"distinct_nontrivial":  nontrivial,
			"rule":                 "one evaluation = one symbolic path (a distinct sequence of solver-decided branch outcomes) through a harness; non-trivial = the path ends PASS and reaches at least one declared cover label; paths are distinct by construction (they differ in at least one branch decision)",
			"samples":              samples,
			"obligations":          obligations,
			"discharged":           discharged,
			"obligation_instances": map[string]int{"evaluated": instances, "held": instDischarged},
			"paths_by_outcome":     pathKinds,
			"harnesses":            hsum,
			"functions_encoded":    fnames,
			"ssa_instructions":     ninstr,
			"solver":               map[string]any{"primary": "z3 5.1.0 (z3-new -in, incremental push/pop)", "queries": queries, "solver_s": round2(solverS)},
			"native_replays":       replayed,
			"cross_solver":         crossSolverStats,
			"translator_selftest":  map[string]any{"witnesses_of_passing_paths_replayed_natively": selfTestCount, "note": "each must finish natively without a failed assertion, violated assumption or panic; a mismatch makes the check inconclusive (exit 2)"},
			"known_findings_hit":   knownHits,
			"failing_obligations":  failsum,
			"inconclusive":         inconclusive,
			"outside_claim":        note.Outside,
			"checker_cmd":          fmt.Sprintf("/verif/check %s --tier %s", prop, tier),
			"trusted_base":         []string{"symgo (go/ssa interpreter + SMT encoding, /verif/engine)", "golang.org/x/tools/go/ssa v0.29.0", "z3 5.1.0", "stub contracts listed in assumptions"},
			"exhaustive":           false,
		},
		"assumptions": append([]string{"all results are bounded: see coverage.harnesses[*].bounds; loops are unwound up to bounds.unwind and a path that needs more is reported as inconclusive, never as success"}, note.Assumptions...),
		"wall_s":      round2(wall),
		"violations":  violations,
	}
	os.MkdirAll(filepath.Join(vdir, "evidence"), 0o755)
	j, _ := json.MarshalIndent(ev, "", " ")
	os.WriteFile(filepath.Join(vdir, "evidence", prop+".json"), j, 0o644)
}

func round2(f float64) float64 { return float64(int(f*100+0.5)) / 100 }

// locksetFailures turns the access logs of all harnesses into C20 failures: an access by library
// code to a mutable field of a tracked struct without any node mutex held. A field is mutable if
// library code writes it anywhere outside NewRaft/Bootstrap (which run before the node is shared).
func locksetFailures(results []*HarnessResult) {
	mutable := map[string]bool{}
	for _, r := range results {
		for k := range r.Access {
			p := strings.Split(k, "|") // field, r/w, held/free, ctx, fn
			if len(p) == 5 && p[1] == "w" && p[3] == "" {
				mutable[p[0]] = true
			}
		}
	}
	for _, r := range results {
		lab := r.stat("C20.library-access-to-mutable-node-state-holds-the-lock")
		var keys []string
		for k := range r.Access {
			keys = append(keys, k)
		}
		sort.Strings(keys)
		for _, k := range keys {
			p := strings.Split(k, "|")
			if len(p) != 5 || !mutable[p[0]] {
				continue
			}
			lab.Checked++
			if p[2] == "held" || p[3] != "" {
				lab.Trivial++
				continue
			}
			lab.Failed++
			kind := "read"
			if p[1] == "w" {
				kind = "write"
			}
			r.Failures = append(r.Failures, &Failure{
				Harness: r.Harness, Label: "C20.library-access-to-mutable-node-state-holds-the-lock", Kind: "LOCKSET",
				Detail: fmt.Sprintf("%s %s in %s without the node mutex (%s)", p[0], kind, p[4], r.AccessPos[k]),
				Tags:   map[string]string{"field": p[0], "access": kind, "func": p[4]},
				Model:  map[string]any{},
			})
		}
	}
}
