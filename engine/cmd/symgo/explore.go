package main

import (
	"fmt"
	"runtime/debug"
	"sort"
	"strings"
	"sync"
	"time"

	"golang.org/x/tools/go/ssa"
)

// HarnessResult accumulates everything learnt about one harness entry.
type HarnessResult struct {
	Harness    string                `json:"harness"`
	Bounds     map[string]int        `json:"bounds"`
	Paths      map[string]int        `json:"paths"`
	Labels     map[string]*labelStat `json:"labels"`
	Failures   []*Failure            `json:"failures"`
	FailCount  map[string]int        `json:"fail_count"`
	Covers     map[string]int        `json:"covers"`
	Funcs      map[string]int        `json:"funcs"`
	Intercepts map[string]int        `json:"intercepts"`
	Queries    int                   `json:"queries"`
	SolverSec  float64               `json:"solver_s"`
	WallSec    float64               `json:"wall_s"`
	Notes      []string              `json:"notes"`
	Nontrivial int                   `json:"nontrivial_paths"`
	Samples    []map[string]any      `json:"samples"`
	SolverErrs []string              `json:"solver_errors"`
	Access     map[string]int        `json:"access,omitempty"`
	AccessPos  map[string]string     `json:"access_pos,omitempty"`
	passSeen   int
	noteSet    map[string]bool
	sigSeen    map[string]int
	pathSigs   map[string]bool
	mu         sync.Mutex
}

// passing paths are sampled at exponentially spaced ordinals (per worker) for diversity
var sampleAt = map[int]bool{1: true, 5: true, 23: true, 90: true, 350: true, 1400: true}

func newHarnessResult(name string, bounds map[string]int) *HarnessResult {
	return &HarnessResult{
		Harness: name, Bounds: bounds,
		Paths: map[string]int{}, Labels: map[string]*labelStat{}, FailCount: map[string]int{},
		Covers: map[string]int{}, Funcs: map[string]int{}, Intercepts: map[string]int{}, Access: map[string]int{}, AccessPos: map[string]string{},
		noteSet: map[string]bool{}, sigSeen: map[string]int{}, pathSigs: map[string]bool{},
	}
}

func (r *HarnessResult) Inconclusive(msg string) {
	if r.noteSet[msg] {
		return
	}
	r.noteSet[msg] = true
	if len(r.Notes) < 40 {
		r.Notes = append(r.Notes, msg)
	}
}

func (r *HarnessResult) stat(label string) *labelStat {
	s := r.Labels[label]
	if s == nil {
		s = &labelStat{}
		r.Labels[label] = s
	}
	return s
}

func (r *HarnessResult) merge(o *HarnessResult) {
	for k, v := range o.Paths {
		r.Paths[k] += v
	}
	for k, v := range o.Labels {
		s := r.stat(k)
		s.Checked += v.Checked
		s.Trivial += v.Trivial
		s.Discharged += v.Discharged
		s.Failed += v.Failed
		s.Unknown += v.Unknown
	}
	for k, v := range o.FailCount {
		r.FailCount[k] += v
	}
	for _, f := range o.Failures {
		sig := failureSig(f)
		if r.sigSeen[sig] < 8 {
			r.sigSeen[sig]++
			r.Failures = append(r.Failures, f)
		}
	}
	for k, v := range o.Covers {
		r.Covers[k] += v
	}
	for k, v := range o.Funcs {
		r.Funcs[k] = v
	}
	for k, v := range o.Intercepts {
		r.Intercepts[k] += v
	}
	for k, v := range o.Access {
		r.Access[k] += v
	}
	for k, v := range o.AccessPos {
		if _, ok := r.AccessPos[k]; !ok {
			r.AccessPos[k] = v
		}
	}
	r.Queries += o.Queries
	r.SolverSec += o.SolverSec
	for _, n := range o.Notes {
		r.Inconclusive(n)
	}
	r.Nontrivial += o.Nontrivial
	r.Samples = append(r.Samples, o.Samples...)
	r.SolverErrs = append(r.SolverErrs, o.SolverErrs...)
}

func failureSig(f *Failure) string {
	var sb strings.Builder
	sb.WriteString(f.Harness + "|" + f.Label + "|" + f.Kind + "|" + f.Detail)
	for _, k := range sortedKeys(f.Tags) {
		sb.WriteString("|" + k + "=" + f.Tags[k])
	}
	return sb.String()
}

// ---------------------------------------------------------------------------

type workQueue struct {
	mu     sync.Mutex
	cond   *sync.Cond
	items  [][]int8
	active int
	done   int
	max    int
	over   bool
}

func (q *workQueue) pop() ([]int8, bool) {
	q.mu.Lock()
	defer q.mu.Unlock()
	for {
		if len(q.items) > 0 && !q.over {
			it := q.items[len(q.items)-1]
			q.items = q.items[:len(q.items)-1]
			q.active++
			return it, true
		}
		if q.active == 0 || q.over {
			q.cond.Broadcast()
			return nil, false
		}
		q.cond.Wait()
	}
}

func (q *workQueue) finish(newItems [][]int8) {
	q.mu.Lock()
	q.items = append(q.items, newItems...)
	q.active--
	q.done++
	if q.done >= q.max {
		q.over = true
	}
	q.mu.Unlock()
	q.cond.Broadcast()
}

// Explore runs all paths of one harness entry.
func Explore(w *World, entry string, bounds map[string]int, workers int, solverKind string, prop ...string) *HarnessResult {
	t0 := time.Now()
	total := newHarnessResult(entry, bounds)
	fn := w.findFunc(entry)
	if fn == nil {
		total.Inconclusive("harness entry not found: " + entry)
		return total
	}
	q := &workQueue{max: bounds["maxpaths"]}
	q.cond = sync.NewCond(&q.mu)
	q.items = append(q.items, []int8{})
	var wg sync.WaitGroup
	results := make([]*HarnessResult, workers)
	for i := 0; i < workers; i++ {
		wg.Add(1)
		go func(i int) {
			defer wg.Done()
			res := newHarnessResult(entry, bounds)
			results[i] = res
			s, err := NewSolver(solverKind, bounds["solver_ms"])
			if err != nil {
				res.Inconclusive("cannot start solver: " + err.Error())
				return
			}
			defer s.Close()
			ex := &Exec{w: w, solver: s, entry: fn, bounds: bounds, res: res}
			if len(prop) > 0 {
				ex.prop = prop[0]
			}
			for {
				prefix, ok := q.pop()
				if !ok {
					break
				}
				ex.runPath(prefix)
				q.finish(ex.pending)
			}
			res.Queries = s.Queries
			res.SolverSec = s.Time.Seconds()
			res.SolverErrs = s.Errors
		}(i)
	}
	wg.Wait()
	for _, r := range results {
		if r != nil {
			total.merge(r)
		}
	}
	if q.over && (len(q.items) > 0) {
		total.Inconclusive(fmt.Sprintf("path budget (%d) exhausted with %d prefixes pending", q.max, len(q.items)))
	}
	if len(total.SolverErrs) > 0 {
		total.Inconclusive("solver reported errors: " + total.SolverErrs[0])
	}
	sort.Slice(total.Failures, func(i, j int) bool { return failureSig(total.Failures[i]) < failureSig(total.Failures[j]) })
	total.WallSec = time.Since(t0).Seconds()
	return total
}

func (s *Solver) CheckCounted() string { return s.Check() }

// runPath executes the harness once, following prefix and then the first feasible side of each new branch.
func (ex *Exec) runPath(prefix []int8) {
	ex.prefix = prefix
	ex.pos = 0
	ex.trace = ex.trace[:0]
	ex.pending = nil
	ex.globals = map[*ssa.Global]*Cell{}
	ex.cellSeq = 0
	ex.objSeq = 0
	ex.declared = map[string]int{}
	ex.strVars = map[string]bool{}
	ex.choices = map[string]uint64{}
	ex.occ = map[string]int{}
	ex.spawned = nil
	ex.stack = nil
	ex.covers = map[string]bool{}
	ex.tags = map[string]string{}
	ex.panicLbl = "C18.nopanic"
	ex.otherFailed = false
	ex.fatalLbl = "C14|C18.nofatal"
	ex.steps = 0
	ex.inBg = false
	ex.pcDirty = false
	ex.modelOK = false
	ex.model = nil
	ex.pendingA = nil
	ex.clockN = 0
	ex.lastNow = nil
	ex.ghost = map[string]Value{}
	ex.vfs = nil
	ex.accessLog = nil
	ex.trackLocks = ex.bounds["locks"] == 1
	ex.muHeld = 0
	ex.raftCells = 0

	ex.solver.send("(push 1)")
	end := ex.runGuarded()
	if end.Kind == "PANIC" || end.Kind == "FATAL" || end.Kind == "BLOCKS" {
		if e2 := ex.flushGuarded(); e2 != nil {
			end = *e2
		}
	}
	if ex.pcDirty && (end.Kind == "PANIC" || end.Kind == "FATAL" || end.Kind == "BLOCKS") {
		if ex.solver.Check() == "unsat" {
			end = pathEnd{Kind: "PRUNED", Detail: "assume made the path infeasible"}
		}
	}
	ex.res.Paths[end.Kind]++
	switch end.Kind {
	case "PASS":
		for c := range ex.covers {
			ex.res.Covers[c]++
		}
		if len(ex.covers) > 0 {
			ex.res.Nontrivial++
		}
		ex.res.passSeen++
		if sampleAt[ex.res.passSeen] && len(ex.res.Samples) < 6 {
			if ex.solver.Check() == "sat" {
				raw := ex.solver.Model(ex.declared)
				smp := map[string]any{
					"harness": ex.res.Harness, "outcome": "PASS", "covers": sortedKeys(ex.covers),
					"tags": copyTags(ex.tags), "witness": ex.decodeModel(raw),
					"branch_decisions": len(ex.trace),
				}
				if ex.vfs != nil {
					smp["image"] = ex.exportImage(raw)
				}
				ex.res.Samples = append(ex.res.Samples, smp)
			}
		}
	case "PRUNED":
	case "PANIC", "FATAL", "BLOCKS":
		lbl := ex.panicLbl
		if end.Kind == "FATAL" {
			lbl = ex.fatalLbl
		}
		st := ex.res.stat(lbl)
		st.Checked++
		st.Failed++
		ex.recordFailure(lbl, end.Kind, end.Detail)
	default:
		ex.res.Inconclusive(end.Kind + ": " + end.Detail)
	}
	ex.solver.send("(pop 1)")
}

func copyTags(m map[string]string) map[string]string {
	r := map[string]string{}
	for k, v := range m {
		r[k] = v
	}
	return r
}

func (ex *Exec) runGuarded() (end pathEnd) {
	defer func() {
		if r := recover(); r != nil {
			if pe, ok := r.(pathEnd); ok {
				end = pe
				return
			}
			end = pathEnd{Kind: "UNSUPPORTED", Detail: fmt.Sprintf("engine panic: %v @ %s\n%s", r, ex.where(), trimStack(string(debug.Stack())))}
		}
	}()
	ex.callFunction(ex.entry, nil, nil)
	ex.flushAsserts()
	ex.ensureFeasible()
	return pathEnd{Kind: "PASS"}
}

func trimStack(s string) string {
	lines := strings.Split(s, "\n")
	var keep []string
	for _, l := range lines {
		if strings.Contains(l, "symgo/") {
			keep = append(keep, strings.TrimSpace(l))
		}
		if len(keep) > 8 {
			break
		}
	}
	return strings.Join(keep, " <- ")
}

// decodeModel converts a raw model to JSON-friendly values (strings for string variables).
func (ex *Exec) decodeModel(m map[string]uint64) map[string]any {
	out := map[string]any{}
	for name, w := range ex.declared {
		v := m[name]
		if ex.strVars[name] {
			out[name] = ex.w.internRev(int(v))
		} else if w == 0 {
			out[name] = v != 0
		} else {
			// keep as decimal string to avoid JSON float precision loss
			out[name] = fmt.Sprintf("%d", v)
		}
	}
	for name, v := range ex.choices {
		out[name] = fmt.Sprintf("%d", v)
	}
	return out
}

// recordFailure stores a failing instance with a model of the current path condition.
func (ex *Exec) recordFailure(label, kind, detail string) {
	ex.res.FailCount[label]++
	f := &Failure{Harness: ex.res.Harness, Label: label, Kind: kind, Detail: detail, Tags: copyTags(ex.tags), Stack: ex.stackNames()}
	sig := failureSig(f)
	if ex.res.sigSeen[sig] >= 2 {
		return
	}
	r := ex.solver.Check()
	if r != "sat" {
		ex.res.Inconclusive("no model for failing path (" + r + ") label " + label)
		return
	}
	ex.res.sigSeen[sig]++
	raw := ex.solver.Model(ex.declared)
	f.Model = ex.decodeModel(raw)
	if ex.vfs != nil {
		f.Image = ex.exportImage(raw)
	}
	f.Trace = append([]int8{}, ex.trace...)
	ex.res.Failures = append(ex.res.Failures, f)
}

// slot reserves one entry of the decision trace for a solver-backed event (assert, cover).
// When the path is still replaying its prefix, an ancestor path already evaluated the event:
// replay is true and code is what the ancestor recorded.
func (ex *Exec) slot() (replay bool, code int8) {
	if ex.pos < len(ex.prefix) {
		code = ex.prefix[ex.pos]
		ex.pos++
		ex.trace = append(ex.trace, code)
		return true, code
	}
	ex.pos++
	ex.trace = append(ex.trace, 5)
	return false, 5
}

func (ex *Exec) setSlot(code int8) { ex.trace[len(ex.trace)-1] = code }

type pendingAssert struct {
	c     *Term
	label string
	slot  int
}

// checkAssert evaluates a harness assertion on the current path. Symbolic assertions are queued and
// discharged together at the next solver event (flushAsserts): one query for the conjunction, and
// individual queries only if that one is satisfiable.
func (ex *Exec) checkAssert(c *Term, label string) {
	if c.IsTrue() {
		if ex.pos >= len(ex.prefix) {
			st := ex.res.stat(label)
			st.Checked++
			st.Trivial++
		}
		return
	}
	if ex.pos >= len(ex.prefix) && c.IsFalse() {
		ex.flushAsserts()
	}
	replay, code := ex.slot()
	if replay {
		if code == 6 {
			ex.assertPC(c)
			ex.modelOK = false
		}
		if code == 8 {
			ex.otherFailed = true
		}
		return
	}
	if c.IsFalse() {
		st := ex.res.stat(label)
		st.Checked++
		st.Failed++
		ex.recordFailure(label, "ASSERT", "")
		if ex.prop != "" && (!labelHas(label, ex.prop) || knownLabels[ex.res.Harness+"|"+label]) {
			// an obligation of another property (reported there) or a listed known finding: this path goes on
			// without assuming it
			ex.otherFailed = true
			ex.setSlot(8)
			return
		}
		ex.end("PRUNED", "assertion concretely false; path ends after recording")
	}
	ex.pendingA = append(ex.pendingA, pendingAssert{c: c, label: label, slot: len(ex.trace) - 1})
}

// flushAsserts discharges the queued assertions.
func (ex *Exec) flushAsserts() {
	if len(ex.pendingA) == 0 {
		return
	}
	pa := ex.pendingA
	ex.pendingA = nil
	if len(pa) > 1 && ex.bounds["batch_asserts"] == 1 {
		conj := tTrue
		for _, a := range pa {
			conj = mkAnd(conj, a.c)
		}
		ex.res.Intercepts["q:assert-batch"]++
		r, _ := ex.checkWithModel0(mkNot(conj))
		if r == "unsat" {
			if ex.pcDirty && !ex.modelOK {
				ex.ensureFeasible()
			}
			for _, a := range pa {
				st := ex.res.stat(a.label)
				st.Checked++
				st.Discharged++
			}
			return
		}
	}
	for _, a := range pa {
		ex.checkOne(a)
	}
}

func (ex *Exec) checkWithModel0(c *Term) (string, map[string]uint64) {
	if c.IsFalse() {
		return "unsat", nil
	}
	if c.IsTrue() {
		return ex.solver.Check(), nil
	}
	s := ex.solver.smt(c)
	ex.solver.send("(push 1)")
	ex.solver.send("(assert " + s + ")")
	r := ex.solver.Check()
	ex.solver.send("(pop 1)")
	return r, nil
}

func (ex *Exec) checkOne(a pendingAssert) {
	c, label := a.c, a.label
	st := ex.res.stat(label)
	st.Checked++
	ex.res.Intercepts["q:assert"]++
	neg := mkNot(c)
	s := ex.solver.smt(neg)
	ex.solver.send("(push 1)")
	ex.solver.send("(assert " + s + ")")
	r := ex.solver.Check()
	switch r {
	case "unsat":
		if ex.pcDirty && !ex.modelOK {
			ex.solver.send("(pop 1)")
			st.Checked--
			ex.ensureFeasible()
			st.Checked++
			ex.solver.send("(push 1)")
		}
		st.Discharged++
	case "sat":
		ex.pcDirty = false
		st.Failed++
		ex.recordFailure(label, "ASSERT", "")
	default:
		st.Unknown++
		ex.res.Inconclusive("solver unknown on assertion " + label)
	}
	ex.solver.send("(pop 1)")
	if r == "sat" && ex.prop != "" && (!labelHas(label, ex.prop) || knownLabels[ex.res.Harness+"|"+label]) {
		// an obligation of another property failed: do not assume it, so that it cannot mask an
		// obligation of the property being checked further down this path
		ex.otherFailed = true
		ex.trace[a.slot] = 8
		return
	}
	if r == "sat" {
		// continue under the assumption that the assertion held, to look for further failures
		ex.trace[a.slot] = 6
		ex.modelOK = false
		ex.assertPC(c)
		if ex.solver.Check() != "sat" {
			ex.end("PRUNED", "assertion always false on this path")
		}
	}
}

// flushGuarded flushes queued assertions after the path already ended abnormally.
func (ex *Exec) flushGuarded() (end *pathEnd) {
	defer func() {
		if r := recover(); r != nil {
			if pe, ok := r.(pathEnd); ok {
				end = &pe
				return
			}
			end = &pathEnd{Kind: "UNSUPPORTED", Detail: fmt.Sprintf("engine panic in flush: %v", r)}
		}
	}()
	ex.flushAsserts()
	return nil
}
