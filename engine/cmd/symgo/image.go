package main

import (
	"fmt"
	"go/types"
	"sort"
)

// Image export: the post-crash file system of a storage harness, evaluated under the solver's model,
// written into the replay file so that the native replayer can materialise it with the real codecs.

type linForm struct {
	Const uint64   `json:"const"`
	Vars  []string `json:"vars"`
	OK    bool     `json:"ok"`
}

// linear decomposes a term that is a sum of constants and variables.
func linear(t *Term) linForm {
	switch t.Op {
	case "const":
		return linForm{Const: t.C, OK: true}
	case "var":
		return linForm{Vars: []string{t.Name}, OK: true}
	case "bvadd":
		a, b := linear(t.Args[0]), linear(t.Args[1])
		if a.OK && b.OK {
			return linForm{Const: a.Const + b.Const, Vars: append(append([]string{}, a.Vars...), b.Vars...), OK: true}
		}
	}
	return linForm{}
}

func (ex *Exec) exportTerm(t *Term, model map[string]uint64) any {
	if lf := linear(t); lf.OK && len(lf.Vars) > 0 && t.W == 64 {
		onlyLens := true
		for _, v := range lf.Vars {
			if len(v) < 11 || v[:11] != "marshal.len" {
				onlyLens = false
			}
		}
		if onlyLens {
			return map[string]any{"lin": lf, "value": fmt.Sprint(t.eval(model))}
		}
	}
	if t.W == 0 {
		return t.eval(model) == 1
	}
	return fmt.Sprint(t.eval(model))
}

func (ex *Exec) exportValue(v Value, t types.Type, model map[string]uint64) any {
	switch x := v.(type) {
	case *Term:
		return ex.exportTerm(x, model)
	case *StrVal:
		if x.Sym != nil {
			return ex.w.internRev(int(x.Sym.eval(model)))
		}
		return x.S
	case *SliceVal:
		if x.Blob != nil {
			return map[string]any{"blob": x.Blob.ID}
		}
		if x.Arr == nil {
			return nil
		}
		out := []any{}
		for _, e := range ex.sliceElems(x) {
			out = append(out, ex.exportValue(e, nil, model))
		}
		return out
	case *Agg:
		st, ok := t.Underlying().(*types.Struct)
		if !ok {
			return nil
		}
		m := map[string]any{}
		for i := 0; i < st.NumFields() && i < len(x.E); i++ {
			f := st.Field(i)
			if !f.Exported() && f.Name() != "term" && f.Name() != "votedFor" {
				continue
			}
			m[f.Name()] = ex.exportValue(x.E[i], f.Type(), model)
		}
		return m
	}
	return nil
}

func (ex *Exec) exportChunk(c *vchunk, model map[string]uint64) map[string]any {
	switch c.kind {
	case 0:
		m := map[string]any{"kind": "hdr", "bytes": c.hbytes, "value": fmt.Sprint(signExt(c.val.eval(model), 32))}
		// a header written as int32(len(buf)) of a codec output: natively it carries the real length
		if c.val.Op == "extract" && len(c.val.Args) == 1 && c.val.Args[0].Op == "var" {
			m["lenOf"] = c.val.Args[0].Name
		}
		return m
	case 1:
		m := map[string]any{"kind": "blob", "codec": c.blob.Kind, "full": c.full, "modelLen": fmt.Sprint(c.blob.Len.eval(model)), "avail": fmt.Sprint(c.avail.eval(model))}
		if c.blob.Len.Op == "var" {
			m["lenVar"] = c.blob.Len.Name
		}
		if mv, ok := c.blob.Msg.(Value); ok && c.blob.MsgType != nil {
			t := c.blob.MsgType
			if p, isP := t.(*types.Pointer); isP {
				t = p.Elem()
			}
			m["msg"] = ex.exportValue(mv, t, model)
		}
		return m
	case 3:
		return map[string]any{"kind": "garbage", "size": fmt.Sprint(c.avail.eval(model))}
	default:
		var bs []any
		for _, b := range c.raw {
			bs = append(bs, ex.exportValue(b, nil, model))
		}
		return map[string]any{"kind": "raw", "data": bs}
	}
}

func (ex *Exec) exportImage(model map[string]uint64) any {
	v := ex.vfs
	nodes, ops := v.nodes, v.opLog
	if v.crashNodes != nil {
		nodes, ops = v.crashNodes, v.crashOps
	}
	var paths []string
	for p := range nodes {
		paths = append(paths, p)
	}
	sort.Strings(paths)
	var out []any
	for _, p := range paths {
		n := nodes[p]
		if n.dir {
			out = append(out, map[string]any{"path": p, "dir": true})
			continue
		}
		var cs []any
		for _, c := range n.file.chunks {
			cs = append(cs, ex.exportChunk(c, model))
		}
		out = append(out, map[string]any{"path": p, "dir": false, "chunks": cs})
	}
	return map[string]any{"nodes": out, "ops": ops}
}
