package main

import (
	"go/types"
	"strings"
)

// Lock discipline (C20, reduced claim): every access by library code to state of a node that is
// written after construction happens with that node's mutex held. The engine logs each load/store
// whose address is a field of a tracked struct together with whether a Raft.mu is held and which
// library function performs it; check.go decides which fields are mutable and which unlocked
// accesses are violations.

var trackedTypes = map[string]bool{
	"Raft": true, "follower": true, "operationManager": true, "lease": true, "persistentLog": true, "LogEntry": true,
}

var lockUnits = map[string]bool{
	"sendRequestVote": true, "sendAppendEntries": true, "electionLoop": true, "election": true, "commitLoop": true,
	"applyLoop": true, "readOnlyLoop": true, "snapshotLoop": true, "takeSnapshot": true, "heartbeatLoop": true,
	"electionTicker": true, "start": true, "NewRaft": true,
	// what the bundled transport does with a request after the sender released the node lock
	"makeProtoAppendEntriesRequest": true, "makeProtoRequestVoteRequest": true, "makeProtoInstallSnapshotRequest": true,
}

// stackRecvIsRaft reports whether the named function on the stack is a method of *Raft.
func (ex *Exec) stackRecvIsRaft(name string) bool {
	for _, f := range ex.stack {
		if f.fn.Name() == name {
			if recv := f.fn.Signature.Recv(); recv != nil {
				return strings.HasSuffix(recv.Type().String(), "raft.Raft")
			}
		}
	}
	return false
}

// ownerField returns the tracked struct type and first-level field a cell belongs to.
func ownerField(c *Cell) (typ string, field string, ok bool) {
	cur := c
	for cur.Parent != nil {
		par := cur.Parent
		if st, isS := par.T.Underlying().(*types.Struct); isS {
			if n, isN := par.T.(*types.Named); isN && n.Obj().Pkg() != nil && n.Obj().Pkg().Path() == raftPath && trackedTypes[n.Obj().Name()] {
				return n.Obj().Name(), st.Field(cur.Index).Name(), true
			}
		}
		cur = par
	}
	return "", "", false
}

func (ex *Exec) lockAccess(c *Cell, write bool) {
	if ex.raftCells == 0 || len(ex.stack) == 0 {
		return
	}
	typ, field, ok := ownerField(c)
	if !ok {
		return
	}
	if typ == "Raft" && (field == "mu" || field == "wg") {
		return
	}
	// the accessing instruction must belong to library code, not to a harness
	fr := ex.stack[len(ex.stack)-1]
	if !fr.pos.IsValid() {
		return
	}
	file := shortFile(ex.w.fset.Position(fr.pos).Filename)
	if strings.HasPrefix(file, "zz_verif") {
		return
	}
	// the outermost library frame must be a unit the library itself runs (a public method, an RPC
	// handler, a loop or sender goroutine); helper calls made by a harness for inspection do not count
	unit := ""
	for i := len(ex.stack) - 1; i >= 0; i-- {
		f := ex.stack[i]
		lib := f.fn.Pkg != nil && strings.HasPrefix(f.fn.Pkg.Pkg.Path(), raftPath)
		if lib {
			pos := f.fn.Pos()
			if pos.IsValid() && strings.HasPrefix(shortFile(ex.w.fset.Position(pos).Filename), "zz_verif") {
				lib = false
			}
		}
		if f.fn.Pkg == nil && f.fn.Synthetic != "" {
			continue // wrappers
		}
		if !lib {
			break // a harness frame: the library frames above it were entered from harness code
		}
		unit = f.fn.Name()
	}
	if !lockUnits[unit] && !(len(unit) > 0 && unit[0] >= 'A' && unit[0] <= 'Z' && ex.stackRecvIsRaft(unit)) {
		return
	}
	ctx := ""
	for _, f := range ex.stack {
		switch f.fn.Name() {
		case "NewRaft":
			ctx = "NewRaft"
		case "Bootstrap":
			if ctx == "" {
				ctx = "Bootstrap"
			}
		}
	}
	// constructors of objects that are not shared yet
	switch fr.fn.Name() {
	case "newOperationManager", "newLease":
		return
	}
	// initialising stores into an object allocated by this very function activation
	if write {
		root := c
		for root.Parent != nil {
			root = root.Parent
		}
		if root.born != nil && root.born == fr {
			return
		}
	}
	k := typ + "." + field + "|"
	if write {
		k += "w|"
	} else {
		k += "r|"
	}
	if ex.muHeld > 0 {
		k += "held|"
	} else {
		k += "free|"
	}
	k += ctx + "|" + fr.fn.Name()
	ex.res.Access[k]++
	if ex.muHeld == 0 && ctx == "" {
		if _, seen := ex.res.AccessPos[k]; !seen {
			ex.res.AccessPos[k] = ex.whereRepo()
		}
	}
}
