package main

import (
	"fmt"
	"go/types"

	"golang.org/x/tools/go/ssa"
)

// Value is one of:
//
//	*Term      integers (bit-vectors) and bools
//	*StrVal    strings (concrete or symbolic interned id)
//	*Ptr       pointers (Cell == nil => nil pointer)
//	*Agg       struct / array / tuple values (immutable)
//	*SliceVal  slices
//	*MapObj    maps (nil pointer => nil map)
//	*ChanObj   channels (nil pointer => nil channel)
//	*IfaceVal  interfaces (Typ == nil => nil interface)
//	*FuncVal   function values / closures (Fn == nil => nil func)
type Value interface{}

type StrVal struct {
	S    string
	Sym  *Term // non-nil: symbolic interned id (BV16); S unused
	Univ []int // interned ids Sym ranges over
}

type Ptr struct {
	C *Cell
}

type Agg struct {
	E []Value
}

type SliceVal struct {
	Arr *Cell // array cell (Kids are the elements); nil => nil slice
	Off int
	Len int
	Cap int
	// Opaque blob support (byte slices with symbolic length, used by the vfs model).
	Blob *Blob
}

type mapCell struct {
	Key  Value
	Val  Value
	Live bool
}

type MapObj struct {
	T     *types.Map
	Cells []*mapCell
	id    int
}

type ChanObj struct {
	Cap    int
	Buf    []Value
	Closed bool
	id     int
}

type IfaceVal struct {
	Typ types.Type // dynamic type; nil => nil interface
	Val Value
}

type FuncVal struct {
	Fn   *ssa.Function
	Bind []Value
	// Builtin or intercept-only function value
	Name string
}

// Cell is an addressable memory location. Aggregates (structs, arrays) have Kids.
type Cell struct {
	T      types.Type
	V      Value   // leaf value
	Kids   []*Cell // struct fields / array elements
	id     int
	Parent *Cell
	Index  int // index within parent
	Tag    string
	born   *frame // the function activation that allocated this object (lock discipline: initialising stores)
}

func (ex *Exec) newCell(t types.Type) *Cell {
	ex.cellSeq++
	c := &Cell{T: t, id: ex.cellSeq}
	if len(ex.stack) > 0 {
		c.born = ex.stack[len(ex.stack)-1]
	}
	if n, ok := t.(*types.Named); ok && n.Obj().Name() == "Raft" && n.Obj().Pkg() != nil && n.Obj().Pkg().Path() == raftPath {
		ex.raftCells++
	}
	switch u := t.Underlying().(type) {
	case *types.Struct:
		c.Kids = make([]*Cell, u.NumFields())
		for i := 0; i < u.NumFields(); i++ {
			k := ex.newCell(u.Field(i).Type())
			k.Parent, k.Index = c, i
			c.Kids[i] = k
		}
	case *types.Array:
		n := int(u.Len())
		c.Kids = make([]*Cell, n)
		for i := 0; i < n; i++ {
			k := ex.newCell(u.Elem())
			k.Parent, k.Index = c, i
			c.Kids[i] = k
		}
	default:
		c.V = ex.zero(t)
	}
	return c
}

// newArrayCell allocates a backing array of n elements of type elem.
func (ex *Exec) newArrayCell(elem types.Type, n int) *Cell {
	ex.cellSeq++
	c := &Cell{T: types.NewArray(elem, int64(n)), id: ex.cellSeq}
	c.Kids = make([]*Cell, n)
	for i := 0; i < n; i++ {
		k := ex.newCell(elem)
		k.Parent, k.Index = c, i
		c.Kids[i] = k
	}
	return c
}

func isAggType(t types.Type) bool {
	switch t.Underlying().(type) {
	case *types.Struct, *types.Array:
		return true
	}
	return false
}

func (ex *Exec) load(c *Cell) Value {
	if c.Kids != nil || isAggType(c.T) {
		e := make([]Value, len(c.Kids))
		for i, k := range c.Kids {
			e[i] = ex.load(k)
		}
		return &Agg{E: e}
	}
	return c.V
}

func (ex *Exec) store(c *Cell, v Value) {
	if c.Kids != nil || isAggType(c.T) {
		a, ok := v.(*Agg)
		if !ok {
			ex.fatal("store: aggregate expected for %s, got %T", c.T, v)
		}
		if len(a.E) != len(c.Kids) {
			ex.fatal("store: aggregate arity mismatch %d vs %d (%s)", len(a.E), len(c.Kids), c.T)
		}
		for i, k := range c.Kids {
			ex.store(k, a.E[i])
		}
		return
	}
	c.V = v
}

func intWidth(b *types.Basic) (w int, signed bool, ok bool) {
	switch b.Kind() {
	case types.Int8:
		return 8, true, true
	case types.Int16:
		return 16, true, true
	case types.Int32:
		return 32, true, true
	case types.Int64, types.Int:
		return 64, true, true
	case types.Uint8:
		return 8, false, true
	case types.Uint16:
		return 16, false, true
	case types.Uint32:
		return 32, false, true
	case types.Uint64, types.Uint, types.Uintptr:
		return 64, false, true
	case types.UntypedInt, types.UntypedRune:
		return 64, true, true
	}
	return 0, false, false
}

func (ex *Exec) zero(t types.Type) Value {
	switch u := t.Underlying().(type) {
	case *types.Basic:
		if w, _, ok := intWidth(u); ok {
			return mkConst(w, 0)
		}
		switch u.Kind() {
		case types.Bool, types.UntypedBool:
			return tFalse
		case types.String, types.UntypedString:
			return &StrVal{}
		case types.UnsafePointer:
			return &Ptr{}
		case types.UntypedNil:
			return &Ptr{}
		case types.Float64, types.Float32, types.UntypedFloat:
			return &FloatVal{}
		}
		ex.fatal("zero: unsupported basic type %s", t)
	case *types.Pointer:
		return &Ptr{}
	case *types.Struct:
		e := make([]Value, u.NumFields())
		for i := range e {
			e[i] = ex.zero(u.Field(i).Type())
		}
		return &Agg{E: e}
	case *types.Array:
		e := make([]Value, int(u.Len()))
		for i := range e {
			e[i] = ex.zero(u.Elem())
		}
		return &Agg{E: e}
	case *types.Slice:
		return &SliceVal{}
	case *types.Map:
		return (*MapObj)(nil)
	case *types.Chan:
		return (*ChanObj)(nil)
	case *types.Interface:
		return &IfaceVal{}
	case *types.Signature:
		return &FuncVal{}
	case *types.Tuple:
		e := make([]Value, u.Len())
		for i := range e {
			e[i] = ex.zero(u.At(i).Type())
		}
		return &Agg{E: e}
	}
	ex.fatal("zero: unsupported type %s (%T)", t, t.Underlying())
	return nil
}

// FloatVal is a placeholder for floating point values (only zero / opaque).
type FloatVal struct{ F float64 }

// Blob is an opaque byte string of symbolic length produced by a codec stub.
type Blob struct {
	ID      int
	Len     *Term       // BV64
	Msg     interface{} // the encoded message snapshot (codec-specific)
	Kind    string
	MsgType types.Type // static type of the encoded message (for image export)
}

func describe(v Value) string {
	switch x := v.(type) {
	case *Term:
		if x.IsConst() {
			if x.W == 0 {
				return fmt.Sprint(x.C == 1)
			}
			return fmt.Sprint(x.C)
		}
		return "<sym>"
	case *StrVal:
		if x.Sym != nil {
			return "<symstr>"
		}
		return fmt.Sprintf("%q", x.S)
	case *Ptr:
		if x.C == nil {
			return "nil"
		}
		return fmt.Sprintf("&cell%d", x.C.id)
	case *Agg:
		return fmt.Sprintf("agg%d", len(x.E))
	case *SliceVal:
		return fmt.Sprintf("slice[%d:%d]", x.Off, x.Off+x.Len)
	case *IfaceVal:
		if x.Typ == nil {
			return "nil-iface"
		}
		return "iface(" + x.Typ.String() + ")"
	}
	return fmt.Sprintf("%T", v)
}
