package raft

// Demonstration for the C16 defect repaired by the "fix: a timed-out candidate starts over with a prevote"
// commit: a candidate whose election was not decided re-campaigned with term+1 at every election timeout
// WITHOUT a new prevote, so a node that was cut off right after winning a prevote inflated its term and
// deposed a healthy leader on rejoin (through the response.Term > currentTerm path of sendAppendEntries).
//
// Real Raft instances, in-memory transport, no background loops: every timer firing and every RPC delivery
// is driven explicitly. Run (from /repo, nothing is written there):
//   go test -vet=off -count=1 -overlay <{"Replace":{"/repo/zz_c16_demo_test.go":"<this file>"}}> -run TestDemoC16 .
// Fails on the parent of the fix commit, passes from the fix commit on.
//
// Scenario: fresh 3-node cluster, nobody leads. Node 2's election timer fires, it wins the prevote (one
// prevote reply gets through) and becomes a candidate of term 1; from then on it is cut off. Node 1 campaigns,
// wins term 1 with node 0's vote and stays in prompt contact with node 0. Node 2's election timer fires three
// more times while it is isolated. Then the partition heals and the leader's next heartbeat reaches node 2.
// Expected: node 1 still leads and the majority {0, 1} is still in term 1.

import (
	"errors"
	"sync"
	"testing"
	"time"

	"github.com/jmsadair/raft/logging"
)

// demoNet is an in-memory network connecting the nodes of the demonstration.
type demoNet struct {
	mu sync.Mutex

	// Maps address to node.
	nodes map[string]*Raft

	// Addresses that are cut off from every other node (both directions).
	cut map[string]bool

	// Number of RPCs, by sender address, that were lost because of the partition.
	lost map[string]int

	// Number of RPCs a sender may still get through before it is cut off (absent: unlimited).
	budget map[string]int
}

func (n *demoNet) route(from string, to string) (*Raft, error) {
	n.mu.Lock()
	defer n.mu.Unlock()
	if b, limited := n.budget[from]; limited && !n.cut[from] {
		if b == 0 {
			n.cut[from] = true
		} else {
			n.budget[from] = b - 1
		}
	}
	if n.cut[from] || n.cut[to] {
		n.lost[from]++
		return nil, errors.New("demo network: destination unreachable")
	}
	node, ok := n.nodes[to]
	if !ok {
		return nil, errors.New("demo network: no such node")
	}
	return node, nil
}

func (n *demoNet) setCut(address string, isCut bool) {
	n.mu.Lock()
	defer n.mu.Unlock()
	n.cut[address] = isCut
}

func (n *demoNet) lostFrom(address string) int {
	n.mu.Lock()
	defer n.mu.Unlock()
	return n.lost[address]
}

// demoTransport delivers RPCs by invoking the handler of the destination node directly.
// Everything else (configuration codec, address) is delegated to the real transport.
type demoTransport struct {
	Transport
	self string
	net  *demoNet
}

func (t *demoTransport) SendAppendEntries(
	address string,
	request AppendEntriesRequest,
) (AppendEntriesResponse, error) {
	node, err := t.net.route(t.self, address)
	if err != nil {
		return AppendEntriesResponse{}, err
	}
	// The receiver gets its own copy of the entries, as it would over the wire.
	entries := make([]*LogEntry, len(request.Entries))
	for i, entry := range request.Entries {
		entries[i] = NewLogEntry(
			entry.Index,
			entry.Term,
			append([]byte(nil), entry.Data...),
			entry.EntryType,
		)
	}
	request.Entries = entries
	var response AppendEntriesResponse
	err = node.AppendEntries(&request, &response)
	return response, err
}

func (t *demoTransport) SendRequestVote(
	address string,
	request RequestVoteRequest,
) (RequestVoteResponse, error) {
	node, err := t.net.route(t.self, address)
	if err != nil {
		return RequestVoteResponse{}, err
	}
	var response RequestVoteResponse
	err = node.RequestVote(&request, &response)
	return response, err
}

func (t *demoTransport) SendInstallSnapshot(
	address string,
	request InstallSnapshotRequest,
) (InstallSnapshotResponse, error) {
	node, err := t.net.route(t.self, address)
	if err != nil {
		return InstallSnapshotResponse{}, err
	}
	var response InstallSnapshotResponse
	err = node.InstallSnapshot(&request, &response)
	return response, err
}

type demoView struct {
	state State
	term  uint64
}

func demoInspect(node *Raft) demoView {
	node.mu.Lock()
	defer node.mu.Unlock()
	return demoView{state: node.state, term: node.currentTerm}
}

func demoWaitFor(t *testing.T, what string, condition func() bool) {
	t.Helper()
	deadline := time.Now().Add(10 * time.Second)
	for !condition() {
		if time.Now().After(deadline) {
			t.Fatalf("demo setup: timed out waiting for: %s", what)
		}
		time.Sleep(time.Millisecond)
	}
}

func TestDemoC16RejoiningNodeCannotDeposeHealthyLeader(t *testing.T) {
	members := map[string]string{
		"0": "127.0.0.10:8080",
		"1": "127.0.0.11:8080",
		"2": "127.0.0.12:8080",
	}
	network := &demoNet{
		nodes:  make(map[string]*Raft),
		cut:    make(map[string]bool),
		lost:   make(map[string]int),
		budget: make(map[string]int),
	}

	makeNode := func(id string) *Raft {
		address := members[id]
		base, err := NewTransport(address)
		if err != nil {
			t.Fatalf("demo setup: %v", err)
		}
		node, err := NewRaft(
			id,
			address,
			newStateMachineMock(false, 0),
			t.TempDir(),
			WithLogLevel(logging.Info),
			WithTransport(&demoTransport{Transport: base, self: address, net: network}),
		)
		if err != nil {
			t.Fatalf("demo setup: %v", err)
		}
		if err := node.Bootstrap(members); err != nil {
			t.Fatalf("demo setup: %v", err)
		}

		// What start() does, minus the background loops and the real network listener.
		node.mu.Lock()
		node.followers = make(map[string]*follower)
		for member := range node.configuration.Members {
			node.followers[member] = new(follower)
		}
		node.lastContact = time.Now()
		node.state = Follower
		node.mu.Unlock()

		network.mu.Lock()
		network.nodes[address] = node
		network.mu.Unlock()
		return node
	}

	n0, n1, n2 := makeNode("0"), makeNode("1"), makeNode("2")

	// silence simulates that a node has not heard from a leader (nor granted a vote)
	// for longer than an election timeout.
	silence := func(nodes ...*Raft) {
		for _, node := range nodes {
			node.mu.Lock()
			node.lastContact = time.Now().Add(-2 * node.options.electionTimeout)
			node.mu.Unlock()
		}
	}

	// ---------------------------------------------------------------------------------------
	// Step 1: nobody leads. Node 2's election timer fires: it holds a prevote, exactly one of its
	// requests gets through (enough for a quorum of 2 out of 3), and it becomes a candidate of
	// term 1. Every later RPC from or to node 2 is lost.
	// ---------------------------------------------------------------------------------------
	silence(n0, n1, n2)
	network.mu.Lock()
	network.budget[n2.address] = 1
	network.mu.Unlock()
	n2.mu.Lock()
	n2.election()
	n2.mu.Unlock()
	demoWaitFor(t, "node 2 to win its prevote", func() bool {
		view := demoInspect(n2)
		return view.state == Candidate
	})
	if view := demoInspect(n2); view.term == 0 {
		// hand-off through the election loop: the prevote winner is woken up and starts its election
		n2.mu.Lock()
		n2.election()
		n2.mu.Unlock()
	}
	demoWaitFor(t, "node 2 to campaign in term 1 and to be cut off", func() bool {
		network.mu.Lock()
		isCut := network.cut[n2.address]
		network.mu.Unlock()
		view := demoInspect(n2)
		return isCut && view.state == Candidate && view.term == 1
	})
	// let the remaining requests of node 2 fail
	time.Sleep(20 * time.Millisecond)

	// Node 1's election timer fires: prevote and election, both decided by node 0.
	silence(n0, n1)
	n1.mu.Lock()
	n1.election()
	n1.mu.Unlock()
	demoWaitFor(t, "node 1 to win its prevote", func() bool {
		view := demoInspect(n1)
		return view.state == Candidate || view.state == Leader
	})
	if view := demoInspect(n1); view.state == Candidate && view.term == 0 {
		n1.mu.Lock()
		n1.election()
		n1.mu.Unlock()
	}
	demoWaitFor(t, "node 1 to become the leader of term 1", func() bool {
		view := demoInspect(n1)
		return view.state == Leader && view.term == 1
	})
	demoWaitFor(t, "node 0 to acknowledge the leader's no-op entry", func() bool {
		n1.mu.Lock()
		defer n1.mu.Unlock()
		return n1.followers[n0.id].matchIndex == 2
	})

	leader := n1
	heartbeat := func() {
		leader.mu.Lock()
		leader.operationManager.rounds++
		round := leader.operationManager.rounds
		leader.mu.Unlock()
		acks := 1
		leader.sendAppendEntries(n0.id, n0.address, &acks, round)
		leader.sendAppendEntries(n2.id, n2.address, &acks, round)
	}

	// ---------------------------------------------------------------------------------------
	// Step 2: a healthy cluster. Every node follows the leader of term 1.
	// ---------------------------------------------------------------------------------------
	for i := 0; i < 3; i++ {
		heartbeat()
	}
	for _, node := range []*Raft{n0, n1, n2} {
		if view := demoInspect(node); view.term != 1 {
			t.Fatalf("demo setup: node %s is not in term 1: %+v", node.id, view)
		}
	}
	t.Logf("healthy majority: leader = node 1 (term 1), node 0 follows; node 2 is cut off in state %q, term %d",
		demoInspect(n2).state.String(), demoInspect(n2).term)

	// ---------------------------------------------------------------------------------------
	// Step 3: node 2 is isolated. Its election timer fires three times. The leader stays in
	// contact with node 0 the whole time.
	// ---------------------------------------------------------------------------------------
	for i := 0; i < 3; i++ {
		heartbeat()

		lostBefore := network.lostFrom(n2.address)
		silence(n2)
		n2.mu.Lock()
		n2.election() // what electionLoop does when the election ticker fires
		n2.mu.Unlock()

		// The two vote requests go nowhere. Wait until both have failed.
		demoWaitFor(t, "the vote requests of the isolated node to be lost", func() bool {
			return network.lostFrom(n2.address) == lostBefore+2
		})
	}
	heartbeat()
	t.Logf("after the isolation: node 2 is in state %q, term %d",
		demoInspect(n2).state.String(), demoInspect(n2).term)

	// ---------------------------------------------------------------------------------------
	// Step 4: the partition heals. The next heartbeat of the leader reaches node 2 again.
	// ---------------------------------------------------------------------------------------
	network.mu.Lock()
	delete(network.budget, n2.address)
	network.mu.Unlock()
	network.setCut(n2.address, false)
	heartbeat()

	leaderView, followerView, rejoinedView := demoInspect(n1), demoInspect(n0), demoInspect(n2)
	t.Logf("after the rejoin: node 1 = %+v, node 0 = %+v, node 2 = %+v",
		leaderView, followerView, rejoinedView)

	if leaderView.state != Leader || leaderView.term != 1 {
		t.Errorf(
			"C16 violated: the healthy leader (node 1, term 1) was deposed by the rejoining node: state = %q, term = %d",
			leaderView.state.String(), leaderView.term,
		)
	}
	if followerView.term != 1 {
		t.Errorf("C16 violated: the term of the majority increased: node 0 is in term %d", followerView.term)
	}
	if rejoinedView.term != 1 {
		t.Errorf(
			"the isolated node advanced its term to %d without winning a prevote",
			rejoinedView.term,
		)
	}
}
