package raft

// Demonstration for the C15 defect repaired by the "fix: a node that is the only voter ..." commit:
// isSingleServerCluster() counted members instead of voters, so a node that is the ONLY VOTER of a configuration
// that also has non-voting members (a cluster that is being grown from one node, or was shrunk to one voter)
// was not treated as its own majority:
//   - nothing it appended was committed until some non-voting member happened to reply, and never if they were down;
//   - after a restart it could never be elected again: it asks voters only, there is nobody to ask, and no reply
//     ever triggers the quorum test - the cluster is unavailable for good although a majority of its voters (one
//     of one) is running.
//
// Public API only, real transport on loopback. Run from /repo (nothing is written there) in a private network
// namespace:  unshare -n sh -c 'ip link set lo up; go test -vet=off -count=1 -overlay <overlay.json> -run TestDemoC15 .'
// with overlay.json = {"Replace":{"/repo/zz_c15_demo_test.go":"<this file>"}}.
// Fails on the parent of the fix commit, passes from the fix commit on.

import (
	"testing"
	"time"

	"github.com/jmsadair/raft/logging"
)

func demoC15WaitLeader(t *testing.T, node *Raft, what string) {
	t.Helper()
	deadline := time.Now().Add(5 * time.Second)
	for node.Status().State != Leader {
		if time.Now().After(deadline) {
			t.Fatalf("C15 violated: %s: state = %s, term = %d", what, node.Status().State.String(), node.Status().Term)
		}
		time.Sleep(10 * time.Millisecond)
	}
}

func TestDemoC15OnlyVoterWithNonVotingMembers(t *testing.T) {
	dir := t.TempDir()
	address := "127.0.0.1:8080"
	node, err := NewRaft("a", address, newStateMachineMock(false, 0), dir, WithLogLevel(logging.Info))
	if err != nil {
		t.Fatal(err)
	}
	if err := node.Bootstrap(map[string]string{"a": address}); err != nil {
		t.Fatal(err)
	}
	if err := node.Start(); err != nil {
		t.Fatal(err)
	}
	defer node.Stop()
	demoC15WaitLeader(t, node, "the only node of a fresh cluster did not become leader")

	// Grow the cluster: a non-voting member that has not been started yet (its address answers nothing).
	// The only voter is a majority of the voters: the change must commit without anybody's reply.
	future := node.AddServer("b", "127.0.0.2:8080", false, 3*time.Second)
	if res := future.Await(); res.Error() != nil {
		t.Errorf("C15 violated: adding a non-voting member to a one-voter cluster did not complete while "+
			"the only voter was running: %v", res.Error())
	}

	// A replicated operation: same thing.
	op := node.SubmitOperation([]byte("x"), Replicated, 3*time.Second)
	if res := op.Await(); res.Error() != nil {
		t.Errorf("C15 violated: an operation submitted to the only voter did not complete: %v", res.Error())
	}

	// Restart the only voter. The configuration {a: voter, b: non-voter} is in its log.
	node.Stop()
	if err := node.Restart(); err != nil {
		t.Fatal(err)
	}
	demoC15WaitLeader(t, node, "the only voter was not elected again after a restart (ten election timeouts)")
}
