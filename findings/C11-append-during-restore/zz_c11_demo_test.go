package raft

// Demonstration for the C04/C06/C11 defect repaired by the "fix: AppendEntries is refused while a received snapshot is
// being restored" commit.
//
// InstallSnapshot sets the snapshot boundary (lastIncludedIndex/Term) to the received snapshot's, then releases the node
// lock while the state machine is restored, and afterwards discards the whole log. An AppendEntries request whose previous
// entry is that boundary (a delayed request of the same leader, or a new leader that was led there by this node's own
// rejection hints) was accepted in that window against the new boundary and appended to the OLD log - acknowledged with
// Success - and then thrown away with the rest of the log: the leader counts this node for entries it does not store.
//
// One real node with its real storages, handlers driven by hand:
//   go test -vet=off -count=1 -overlay <{"Replace":{"/repo/zz_c11_demo_test.go":"<this file>"}}> -run TestDemoC11 .
// Fails on the parent of the fix commit, passes from the fix commit on.

import (
	"io"
	"testing"
	"time"

	"github.com/jmsadair/raft/logging"
)

type c11FSM struct {
	*stateMachineMock
	entered chan struct{}
	gate    chan struct{}
}

func (f *c11FSM) Restore(r io.Reader) error {
	close(f.entered)
	<-f.gate
	return f.stateMachineMock.Restore(r)
}

func TestDemoC11AppendEntriesDuringRestore(t *testing.T) {
	members := map[string]string{"f": "127.0.0.1:8080", "l": "127.0.0.2:8080"}
	fsm := &c11FSM{stateMachineMock: newStateMachineMock(false, 0), entered: make(chan struct{}), gate: make(chan struct{})}
	transport, err := newTransportMock(members["f"])
	if err != nil {
		t.Fatal(err)
	}
	f, err := NewRaft("f", members["f"], fsm, t.TempDir(), WithLogLevel(logging.Info), WithTransport(transport))
	if err != nil {
		t.Fatal(err)
	}
	if err := f.Bootstrap(members); err != nil {
		t.Fatal(err)
	}
	f.mu.Lock()
	f.followers = map[string]*follower{"f": {}, "l": {}}
	f.lastContact = time.Now()
	f.state = Follower
	bootTerm := f.log.LastTerm()
	f.mu.Unlock()

	// the node holds entries 2..4 of term 1, uncommitted (a deposed leader's)
	var old []*LogEntry
	for i := uint64(2); i <= 4; i++ {
		old = append(old, NewLogEntry(i, 1, []byte{byte('a' + i)}, OperationEntry))
	}
	var ar AppendEntriesResponse
	if err := f.AppendEntries(&AppendEntriesRequest{LeaderID: "l", Term: 1, PrevLogIndex: 1, PrevLogTerm: bootTerm, Entries: old, LeaderCommit: 1}, &ar); err != nil || !ar.Success {
		t.Fatalf("demo setup: %v %+v", err, ar)
	}

	// the leader of term 2 sends its snapshot through index 3 (term 2): the node's entry 3 conflicts -> restore path
	var ops []Operation
	for i := uint64(2); i <= 3; i++ {
		ops = append(ops, Operation{LogIndex: i, LogTerm: 2, Bytes: []byte{byte('A' + i)}, OperationType: Replicated})
	}
	payload, err := encodeOperations(ops)
	if err != nil {
		t.Fatal(err)
	}
	cfg, err := f.transport.EncodeConfiguration(f.configuration)
	if err != nil {
		t.Fatal(err)
	}
	done := make(chan struct{})
	go func() {
		var ir InstallSnapshotResponse
		if err := f.InstallSnapshot(&InstallSnapshotRequest{LeaderID: "l", Term: 2, LastIncludedIndex: 3, LastIncludedTerm: 2,
			Configuration: cfg, Offset: 0, Bytes: payload, Done: true}, &ir); err != nil {
			t.Errorf("install: %v", err)
		}
		close(done)
	}()
	<-fsm.entered // the state machine is being restored; the node lock is free

	// meanwhile: entries 4 and 5 of term 2, previous entry = the snapshot boundary
	newer := []*LogEntry{NewLogEntry(4, 2, []byte("x"), OperationEntry), NewLogEntry(5, 2, []byte("y"), OperationEntry)}
	ar = AppendEntriesResponse{}
	aerr := f.AppendEntries(&AppendEntriesRequest{LeaderID: "l", Term: 2, PrevLogIndex: 3, PrevLogTerm: 2, Entries: newer, LeaderCommit: 3}, &ar)
	acknowledged := aerr == nil && ar.Success
	t.Logf("AppendEntries during the restore: error = %v, success = %v", aerr, ar.Success)

	close(fsm.gate)
	<-done

	f.mu.Lock()
	defer f.mu.Unlock()
	last := f.log.LastIndex()
	t.Logf("after the installation: the log starts at %d and ends at %d", f.log.(*persistentLog).entries[0].Index, last)
	if acknowledged && last < 5 {
		t.Errorf("C04/C06/C11 violated: the node acknowledged entries 4 and 5 of term 2 with Success while it was installing the snapshot, "+
			"and does not store them now (its log ends at %d): the leader counts this node for entries it does not hold", last)
	}
}
