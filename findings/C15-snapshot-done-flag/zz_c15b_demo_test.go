package raft

// Demonstration for the C15 defect repaired by the "fix: a snapshot request that reaches the end of the file is the last
// one" commit (one half of the former known finding on snapshot "chunks"; the other half - a request carries the whole
// rest of the file however large - is still listed).
//
// sendInstallSnapshot reads the whole rest of the snapshot file into one request and marked the request as the last one
// (Done) only if it had read fewer than 32 KiB. For a snapshot of 32 KiB or more, a member that already has the snapshot
// (its reply says "nothing new", BytesWritten = 0) made the leader alternate between the start and the end of the file
// forever: matchIndex and nextIndex of that member never move again, it receives no further entries, and if it is a voter
// the leader needs, nothing commits. AddServer resets nextIndex to 1 when it promotes a caught-up non-voter, which is
// exactly that situation.
//
// Two real nodes, in-memory transport, replication rounds driven by hand:
//   go test -vet=off -count=1 -overlay <{"Replace":{"/repo/zz_c15b_demo_test.go":"<this file>"}}> -run TestDemoC15b .
// Fails on the parent of the fix commit, passes from the fix commit on.

import (
	"testing"
	"time"

	"github.com/jmsadair/raft/logging"
)

type c15bTransport struct {
	Transport
	peer *Raft
}

func (t *c15bTransport) SendAppendEntries(address string, request AppendEntriesRequest) (AppendEntriesResponse, error) {
	var response AppendEntriesResponse
	err := t.peer.AppendEntries(&request, &response)
	return response, err
}

func (t *c15bTransport) SendInstallSnapshot(address string, request InstallSnapshotRequest) (InstallSnapshotResponse, error) {
	var response InstallSnapshotResponse
	err := t.peer.InstallSnapshot(&request, &response)
	return response, err
}

func TestDemoC15bMemberThatAlreadyHasALargeSnapshot(t *testing.T) {
	members := map[string]string{"l": "127.0.0.1:8080", "f": "127.0.0.2:8080"}
	mk := func(id string) (*Raft, *c15bTransport) {
		base, err := NewTransport(members[id])
		if err != nil {
			t.Fatal(err)
		}
		tr := &c15bTransport{Transport: base}
		node, err := NewRaft(id, members[id], newStateMachineMock(false, 0), t.TempDir(), WithLogLevel(logging.Info), WithTransport(tr))
		if err != nil {
			t.Fatal(err)
		}
		if err := node.Bootstrap(members); err != nil {
			t.Fatal(err)
		}
		node.mu.Lock()
		node.followers = map[string]*follower{"l": {}, "f": {}}
		node.lastContact = time.Now()
		node.state = Follower
		node.mu.Unlock()
		return node, tr
	}
	l, ltr := mk("l")
	f, _ := mk("f")
	ltr.peer = f

	// the leader (term 1) holds a snapshot of 40 KiB through index 5 and has compacted its log
	l.mu.Lock()
	big := make([]byte, 40*1024)
	payload, err := encodeOperations([]Operation{{LogIndex: 5, LogTerm: 1, Bytes: big, OperationType: Replicated}})
	if err != nil {
		t.Fatal(err)
	}
	cfg, _ := l.transport.EncodeConfiguration(l.configuration)
	file, err := l.snapshotStorage.NewSnapshotFile(5, 1, cfg)
	if err != nil {
		t.Fatal(err)
	}
	if _, err := file.Write(payload); err != nil {
		t.Fatal(err)
	}
	if err := file.Close(); err != nil {
		t.Fatal(err)
	}
	if err := l.log.DiscardEntries(5, 1); err != nil {
		t.Fatal(err)
	}
	l.lastIncludedIndex, l.lastIncludedTerm, l.commitIndex, l.lastApplied = 5, 1, 5, 5
	l.currentTerm, l.votedFor, l.state = 1, "l", Leader
	l.committedConfiguration = l.configuration
	l.followers["f"] = &follower{nextIndex: 1}
	l.mu.Unlock()

	round := func() {
		l.mu.Lock()
		l.operationManager.rounds++
		r := l.operationManager.rounds
		l.mu.Unlock()
		l.sendAppendEntries("f", members["f"], nil, r)
	}
	progress := func() (uint64, uint64) {
		l.mu.Lock()
		defer l.mu.Unlock()
		return l.followers["f"].matchIndex, l.followers["f"].nextIndex
	}

	// the member receives the snapshot
	for i := 0; i < 6; i++ {
		round()
	}
	if m, _ := progress(); m != 5 {
		t.Fatalf("demo setup: the first transfer did not complete: matchIndex = %d", m)
	}
	// the member is promoted (AddServer of an existing non-voter): the leader restarts replication to it from index 1
	l.mu.Lock()
	l.followers["f"] = &follower{nextIndex: 1}
	l.mu.Unlock()
	for i := 0; i < 20; i++ {
		round()
	}
	m, n := progress()
	t.Logf("after 20 more rounds: matchIndex = %d, nextIndex = %d", m, n)
	if m != 5 || n != 6 {
		t.Errorf("C15 violated: the member already holds the leader's snapshot, yet after 20 rounds the leader still has matchIndex = %d and "+
			"nextIndex = %d for it: the member never receives another entry", m, n)
	}
}
