package raft

// Demonstration for the C10/C13/C14 defect repaired by the "fix: takeSnapshot discards the snapshot it wrote when an
// installation overtook it" commit.
//
// takeSnapshot creates its snapshot file under the node lock, releases the lock while the state machine serialises
// itself, and used to close the file (make it visible) BEFORE looking at the node again. If a snapshot with a larger
// last included index finished installing in that window - and its file had been created earlier, by its first chunk -
// the node ended up with two visible snapshots of which the storage hands out the one created LAST, i.e. the local one
// with the smaller label (and with a content that was written from the freshly restored state machine):
//   - SnapshotFile() (what a leader sends to followers, and what a restart restores) is not the snapshot the log starts at;
//   - after a restart the node restores label 5 while its log starts at 10: entries 6..10 exist nowhere.
//
// One real node with its real storages, driven by hand (no loops, no sockets):
//   go test -vet=off -count=1 -overlay <{"Replace":{"/repo/zz_c10_demo_test.go":"<this file>"}}> -run TestDemoC10 .
// Fails on the parent of the fix commit, passes from the fix commit on.

import (
	"io"
	"testing"
	"time"

	"github.com/jmsadair/raft/logging"
)

type c10FSM struct {
	*stateMachineMock
	entered chan struct{}
	gate    chan struct{}
}

func (f *c10FSM) Snapshot(w io.Writer) error {
	close(f.entered)
	<-f.gate
	return f.stateMachineMock.Snapshot(w)
}

func TestDemoC10LocalSnapshotOvertakenByInstallation(t *testing.T) {
	dir := t.TempDir()
	members := map[string]string{"f": "127.0.0.1:8080", "l": "127.0.0.2:8080"}
	fsm := &c10FSM{stateMachineMock: newStateMachineMock(false, 0), entered: make(chan struct{}), gate: make(chan struct{})}
	mk := func(machine StateMachine) *Raft {
		transport, err := newTransportMock(members["f"])
		if err != nil {
			t.Fatal(err)
		}
		node, err := NewRaft("f", members["f"], machine, dir, WithLogLevel(logging.Info), WithTransport(transport))
		if err != nil {
			t.Fatal(err)
		}
		return node
	}
	f := mk(fsm)
	if err := f.Bootstrap(members); err != nil {
		t.Fatal(err)
	}
	// what start() does, minus loops and listener
	f.mu.Lock()
	f.followers = map[string]*follower{"f": {}, "l": {}}
	f.lastContact = time.Now()
	f.state = Follower
	f.mu.Unlock()

	// entries 2..5 from the leader, committed; applied by hand (index 1 is the bootstrap configuration)
	var entries []*LogEntry
	for i := uint64(2); i <= 5; i++ {
		entries = append(entries, NewLogEntry(i, 1, []byte{byte('a' + i)}, OperationEntry))
	}
	var ar AppendEntriesResponse
	f.mu.Lock()
	bootTerm := f.log.LastTerm()
	f.mu.Unlock()
	if err := f.AppendEntries(&AppendEntriesRequest{LeaderID: "l", Term: 1, PrevLogIndex: 1, PrevLogTerm: bootTerm, Entries: entries, LeaderCommit: 5}, &ar); err != nil || !ar.Success {
		t.Fatalf("demo setup: append: %v %+v", err, ar)
	}
	f.mu.Lock()
	for _, e := range entries {
		fsm.Apply(&Operation{LogIndex: e.Index, LogTerm: e.Term, Bytes: e.Data, OperationType: Replicated})
	}
	f.lastApplied = 5
	f.committedConfiguration = f.configuration
	f.mu.Unlock()

	// the leader's snapshot through index 10, sent in two requests
	var ops []Operation
	for i := uint64(2); i <= 10; i++ {
		ops = append(ops, Operation{LogIndex: i, LogTerm: 1, Bytes: []byte{byte('a' + i)}, OperationType: Replicated})
	}
	payload, err := encodeOperations(ops)
	if err != nil {
		t.Fatal(err)
	}
	cfg, err := f.transport.EncodeConfiguration(f.configuration)
	if err != nil {
		t.Fatal(err)
	}
	half := len(payload) / 2
	var ir InstallSnapshotResponse
	if err := f.InstallSnapshot(&InstallSnapshotRequest{LeaderID: "l", Term: 1, LastIncludedIndex: 10, LastIncludedTerm: 1,
		Configuration: cfg, Offset: 0, Bytes: payload[:half], Done: false}, &ir); err != nil {
		t.Fatal(err)
	}
	time.Sleep(2 * time.Millisecond) // snapshot directories are named after their creation time

	// the node starts a snapshot of its own (label 5); its state machine is busy serialising
	done := make(chan struct{})
	go func() {
		f.mu.Lock()
		f.takeSnapshot()
		f.mu.Unlock()
		close(done)
	}()
	<-fsm.entered

	// the last chunk arrives: the received snapshot (label 10) is installed
	ir = InstallSnapshotResponse{}
	if err := f.InstallSnapshot(&InstallSnapshotRequest{LeaderID: "l", Term: 1, LastIncludedIndex: 10, LastIncludedTerm: 1,
		Configuration: cfg, Offset: int64(half), Bytes: payload[half:], Done: true}, &ir); err != nil {
		t.Fatal(err)
	}
	close(fsm.gate)
	<-done

	f.mu.Lock()
	boundary, first := f.lastIncludedIndex, f.log.(*persistentLog).entries[0].Index
	f.mu.Unlock()
	if boundary != 10 || first != 10 {
		t.Fatalf("demo setup: the installation did not complete: boundary %d, log starts at %d", boundary, first)
	}
	file, err := f.snapshotStorage.SnapshotFile()
	if err != nil || file == nil {
		t.Fatalf("no snapshot: %v", err)
	}
	label := file.Metadata().LastIncludedIndex
	file.Close()
	if label != boundary {
		t.Errorf("C10/C13 violated: the most recent snapshot of the storage has last included index %d, but the log starts at %d", label, boundary)
	}

	// restart over the same directory
	f.mu.Lock()
	f.log.Close()
	f.mu.Unlock()
	g := mk(newStateMachineMock(false, 0))
	g.mu.Lock()
	defer g.mu.Unlock()
	gl := g.log.(*persistentLog)
	if g.lastIncludedIndex != gl.entries[0].Index {
		t.Errorf("C14 violated: after a restart the node is restored from a snapshot through index %d (lastApplied = %d) while its log starts at %d: "+
			"the entries in between exist nowhere", g.lastIncludedIndex, g.lastApplied, gl.entries[0].Index)
	}
}
