package raft

// Demonstration for the C09 finding "followers put a configuration in force only when they APPLY its entry":
// a voter whose apply loop lags (here: its state machine is slow on one operation) keeps counting votes and
// acknowledgements against a configuration that is two membership changes old although both configuration
// entries are in its log. Majorities of configurations two changes apart need not intersect: {x, b} (a majority of
// the 3-member configuration x still uses) elects x while the leader a stays in contact with {a, d, e} (a majority of
// the 5-member configuration in force); both leaders commit on their own and acknowledge different operations at
// the same log index (C09, C01, C04 violated).
//
// Real Raft nodes with all their real background loops, an in-memory network with partitions. Election
// timeouts are 5 s so that no timer fires on its own during the run (it takes about a second); an expired election timer is emulated by
// rewinding lastContact and calling election() (what electionLoop does when the ticker fires).
//
// Run from /repo (nothing is written there):
//   go test -vet=off -count=1 -overlay <overlay.json> -run TestDemoC09 .
// with overlay.json = {"Replace":{"/repo/zz_c09_demo_test.go":"<this file>"}}.

import (
	"errors"
	"sync"
	"testing"
	"time"

	"github.com/jmsadair/raft/logging"
)

type c09Net struct {
	mu    sync.Mutex
	nodes map[string]*Raft
	group map[string]int // address -> partition group; messages cross groups only if both are 0
}

func (n *c09Net) route(from, to string) (*Raft, error) {
	n.mu.Lock()
	defer n.mu.Unlock()
	if n.group[from] != n.group[to] {
		return nil, errors.New("c09 network: unreachable")
	}
	node, ok := n.nodes[to]
	if !ok {
		return nil, errors.New("c09 network: no such node")
	}
	return node, nil
}

func (n *c09Net) setGroup(g int, nodes ...*Raft) {
	n.mu.Lock()
	defer n.mu.Unlock()
	for _, node := range nodes {
		n.group[node.address] = g
	}
}

type c09Transport struct {
	Transport
	self string
	net  *c09Net
}

func (t *c09Transport) Run() error      { return nil }
func (t *c09Transport) Shutdown() error { return nil }

func (t *c09Transport) SendAppendEntries(address string, request AppendEntriesRequest) (AppendEntriesResponse, error) {
	node, err := t.net.route(t.self, address)
	if err != nil {
		return AppendEntriesResponse{}, err
	}
	entries := make([]*LogEntry, len(request.Entries))
	for i, e := range request.Entries {
		entries[i] = NewLogEntry(e.Index, e.Term, append([]byte(nil), e.Data...), e.EntryType)
	}
	request.Entries = entries
	var response AppendEntriesResponse
	err = node.AppendEntries(&request, &response)
	return response, err
}

func (t *c09Transport) SendRequestVote(address string, request RequestVoteRequest) (RequestVoteResponse, error) {
	node, err := t.net.route(t.self, address)
	if err != nil {
		return RequestVoteResponse{}, err
	}
	var response RequestVoteResponse
	err = node.RequestVote(&request, &response)
	return response, err
}

func (t *c09Transport) SendInstallSnapshot(address string, request InstallSnapshotRequest) (InstallSnapshotResponse, error) {
	node, err := t.net.route(t.self, address)
	if err != nil {
		return InstallSnapshotResponse{}, err
	}
	var response InstallSnapshotResponse
	err = node.InstallSnapshot(&request, &response)
	return response, err
}

// c09FSM is the suite's state machine mock, except that applying the operation "slow" takes as long as the gate is closed.
type c09FSM struct {
	*stateMachineMock
	gate chan struct{}
}

func (f *c09FSM) Apply(operation *Operation) interface{} {
	if f.gate != nil && operation.OperationType == Replicated && string(operation.Bytes) == "slow" {
		<-f.gate
	}
	return f.stateMachineMock.Apply(operation)
}

func (f *c09FSM) applied() []string {
	f.stateMachineMock.mu.Lock()
	defer f.stateMachineMock.mu.Unlock()
	var out []string
	for _, op := range f.operations {
		out = append(out, string(op.Bytes))
	}
	return out
}

func c09Wait(t *testing.T, what string, cond func() bool) {
	t.Helper()
	deadline := time.Now().Add(10 * time.Second)
	for !cond() {
		if time.Now().After(deadline) {
			t.Fatalf("demo setup: timed out waiting for %s", what)
		}
		time.Sleep(2 * time.Millisecond)
	}
}

func TestDemoC09TwoGroupsCommitIndependently(t *testing.T) {
	addr := map[string]string{"a": "127.0.0.1:8080", "b": "127.0.0.2:8080", "x": "127.0.0.3:8080", "d": "127.0.0.4:8080", "e": "127.0.0.5:8080"}
	network := &c09Net{nodes: map[string]*Raft{}, group: map[string]int{}}
	fsms := map[string]*c09FSM{}
	mk := func(id string, gate chan struct{}, bootstrap map[string]string) *Raft {
		base, err := NewTransport(addr[id])
		if err != nil {
			t.Fatal(err)
		}
		fsms[id] = &c09FSM{stateMachineMock: newStateMachineMock(false, 0), gate: gate}
		node, err := NewRaft(id, addr[id], fsms[id], t.TempDir(), WithLogLevel(logging.Info),
			WithElectionTimeout(5*time.Second),
			WithTransport(&c09Transport{Transport: base, self: addr[id], net: network}))
		if err != nil {
			t.Fatal(err)
		}
		if bootstrap != nil {
			if err := node.Bootstrap(bootstrap); err != nil {
				t.Fatal(err)
			}
		}
		network.mu.Lock()
		network.nodes[addr[id]] = node
		network.mu.Unlock()
		if err := node.Start(); err != nil {
			t.Fatal(err)
		}
		t.Cleanup(node.Stop)
		return node
	}
	first := map[string]string{"a": addr["a"], "b": addr["b"], "x": addr["x"]}
	gate := make(chan struct{})
	a, b, x := mk("a", nil, first), mk("b", nil, first), mk("x", gate, first)
	d, e := mk("d", nil, nil), mk("e", nil, nil)
	defer func() {
		select {
		case <-gate:
		default:
			close(gate)
		}
	}()

	// timerFires emulates the expiry of the election timer of the given nodes; silence that nobody has heard
	// from a leader for longer than an election timeout.
	silence := func(nodes ...*Raft) {
		for _, n := range nodes {
			n.mu.Lock()
			n.lastContact = time.Now().Add(-2 * n.options.electionTimeout)
			n.mu.Unlock()
		}
	}
	timerFires := func(n *Raft) {
		n.mu.Lock()
		n.election()
		n.mu.Unlock()
	}
	view := func(n *Raft) Status { return n.Status() }

	// ---- 1. {a, b, x}: a is elected in term 1.
	silence(a, b, x)
	timerFires(a)
	c09Wait(t, "a to lead term 1", func() bool { return view(a).State == Leader })
	term := view(a).Term

	// ---- 2. one operation that x's state machine takes very long to apply: from here on x's apply loop is
	// busy, x keeps receiving, storing and acknowledging entries.
	if res := a.SubmitOperation([]byte("slow"), Replicated, 5*time.Second).Await(); res.Error() != nil {
		t.Fatalf("demo setup: %v", res.Error())
	}

	// ---- 3. grow the cluster twice, one server at a time; each change is committed before the next starts.
	if res := a.AddServer("d", addr["d"], true, 5*time.Second).Await(); res.Error() != nil {
		t.Fatalf("demo setup: adding d: %v", res.Error())
	}
	if res := a.AddServer("e", addr["e"], true, 5*time.Second).Await(); res.Error() != nil {
		t.Fatalf("demo setup: adding e: %v", res.Error())
	}
	last := view(a).CommitIndex
	c09Wait(t, "every node to store the whole log and d, e, b to apply it", func() bool {
		for _, n := range []*Raft{b, d, e} {
			if s := view(n); s.LastApplied < last {
				return false
			}
		}
		x.mu.Lock()
		defer x.mu.Unlock()
		return x.log.LastIndex() >= last && x.commitIndex >= last
	})
	x.mu.Lock()
	xVoters := len(x.configuration.Members)
	x.mu.Unlock()
	t.Logf("leader a (term %d) has committed and applied the 5-member configuration at index %d; x holds all %d entries, "+
		"knows they are committed, but counts against a configuration of %d members", term, last, last, xVoters)

	// ---- 4. a partition: {x, b} | {a, d, e}. The leader a keeps a majority of the 5-member configuration
	// ({a, d, e}) and goes on leading term 1. On the other side x's election timer fires.
	network.setGroup(1, x, b)
	network.setGroup(2, a, d, e)
	silence(b, x)
	timerFires(x)
	elected := false
	for deadline := time.Now().Add(2 * time.Second); time.Now().Before(deadline) && !elected; time.Sleep(2 * time.Millisecond) {
		elected = view(x).State == Leader
	}
	sx, sa := view(x), view(a)
	if sa.State != Leader {
		t.Fatalf("demo setup: a lost its leadership")
	}
	if !elected {
		t.Logf("x was not elected by {x, b} (state %s, term %d): it counts against %d members", sx.State.String(), sx.Term, xVoters)
	} else {
		t.Logf("x: %s of term %d, elected by {x, b}; a: %s of term %d, in contact with {a, d, e}", sx.State.String(), sx.Term, sa.State.String(), sa.Term)
		t.Errorf("C09 violated: two groups of nodes each have a leader that can commit on its own: {x, b} is a majority of the 3-member "+
			"configuration x still uses (x is leader of term %d), {a, d, e} is a majority of the 5-member configuration in force (a is leader of term %d)",
			sx.Term, sa.Term)
	}

	// ---- 5. both sides try to commit operations. (x's own apply loop is still busy, so its future is not awaited:
	// what x commits is observed at its follower b, which applies whatever its leader reports as committed.)
	var ackA []uint64
	for _, op := range []string{"from-a-1", "from-a-2"} {
		res := a.SubmitOperation([]byte(op), Replicated, 5*time.Second).Await()
		if res.Error() != nil {
			t.Fatalf("demo: a did not acknowledge %q: %v", op, res.Error())
		}
		ackA = append(ackA, res.Success().Operation.LogIndex)
	}
	x.SubmitOperation([]byte("from-x"), Replicated, time.Second)
	t.Logf("a acknowledged its two operations at indices %v", ackA)
	c09Wait(t, "e to apply", func() bool { return view(e).LastApplied >= ackA[1] })
	time.Sleep(500 * time.Millisecond) // time for {x, b} to commit and apply, if they can
	ob, oe := fsms["b"].applied(), fsms["e"].applied()
	t.Logf("state machine of b: %v; state machine of e: %v", ob, oe)
	// b is cut off from a, so it may be behind e, but it must not have applied anything else
	for i := range ob {
		if i >= len(oe) || ob[i] != oe[i] {
			t.Errorf("C01/C04/C09 violated: b and e have applied different operation sequences; "+
				"the operations a acknowledged at indices %v are not what b applied there", ackA)
			break
		}
	}
}
