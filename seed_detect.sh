#!/bin/sh
# usage: seed_detect.sh <id>...  -- applies each kept seeded change to a scratch worktree of /repo's HEAD and runs the
# property's quick check against it (restricted to the harness recorded as catching it, if one is recorded).
# Prints SEED-DETECT {id, property, harness, detected, exit}. Scratch: /tmp/wt/dt-<id>, /tmp/vs-dt (removed afterwards).
export GOFLAGS=-mod=mod GOPROXY=off GOSUMDB=off GOTOOLCHAIN=local
rm -rf /tmp/vs-dt && mkdir -p /tmp/vs-dt && cp -r /verif/harness /verif/known_findings.json /tmp/vs-dt/
for id in "$@"; do
  wt=/tmp/wt/dt-$id
  git -C /repo worktree remove --force $wt 2>/dev/null
  git -C /repo worktree add -q --detach $wt HEAD || continue
  (cd $wt && git apply /verif/seeded/$id/patch.diff) || { echo "SEED-DETECT {\"id\":\"$id\",\"error\":\"patch does not apply\"}"; git -C /repo worktree remove --force $wt; continue; }
  prop=$(python3 -c "import json;print(json.load(open('/verif/seeded/$id/meta.json'))['property'])")
  h=$(python3 -c "
import json,re
d=json.load(open('/verif/seeded/detections.json')).get('$id',{})
m=re.search(r'vh_[A-Za-z]+',d.get('caught_by',''))
print(m.group(0) if m and 'lockset' not in d.get('caught_by','') and 'access log' not in d.get('caught_by','') else '')")
  if [ -n "$h" ]; then only="--only $h"; else only=""; fi
  /verif/bin/symgo check $prop --repo $wt --verif /tmp/vs-dt $only > /tmp/wt/dt-$id.log 2>&1; ex=$?
  lbl=$(grep -A1 "^VIOLATION" /tmp/wt/dt-$id.log | grep "label=" | head -1 | sed 's/.*label=\([^ ]*\).*/\1/')
  echo "SEED-DETECT {\"id\":\"$id\",\"property\":\"$prop\",\"harness\":\"$h\",\"detected\":$( [ $ex -eq 1 ] && echo true || echo false ),\"exit\":$ex,\"label\":\"$lbl\"}"
  git -C /repo worktree remove --force $wt
done
rm -rf /tmp/vs-dt
