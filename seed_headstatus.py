#!/usr/bin/env python3
# Folds the result of seed_reverify.sh (confirm.json rewritten against /repo's HEAD) into meta.json without touching the
# original confirmation ("confirmed": what I ran when the change was accepted, against the HEAD of that time).
import json, glob, os, sys
notes = json.load(open('/verif/seeded/head_notes.json')) if os.path.exists('/verif/seeded/head_notes.json') else {}
for d in sorted(glob.glob('/verif/seeded/*/')):
    sid = os.path.basename(d.rstrip('/'))
    try:
        meta = json.load(open(d + 'meta.json')); conf = json.load(open(d + 'confirm.json'))
    except Exception:
        continue
    if 'head' not in conf and 'on_head' not in conf:
        continue
    on_head = conf.get('on_head', conf)
    ok = bool(on_head.get('patch_applies_to_head') and on_head.get('builds') and on_head.get('demo_fails_with_change')
              and on_head.get('demo_passes_without_change') and on_head.get('suite_fail') == 0 and on_head.get('suite_pass', 0) >= 90)
    meta['reverified_on_head'] = dict(on_head, all_conditions_hold=ok)
    if not ok and sid in notes:
        meta['reverified_on_head']['note'] = notes[sid]
    json.dump(meta, open(d + 'meta.json', 'w'), indent=1)
    json.dump({"at_acceptance": meta.get('confirmed', {}), "on_head": meta['reverified_on_head']}, open(d + 'confirm.json', 'w'), indent=1)
    print(sid, 'OK' if ok else 'NOT-ALL', meta['reverified_on_head'].get('note', '')[:80])
